//! C08 — strict JSON validation accepts exactly RFC 8259 documents (nesting <= 128).
//!
//! usage:
//!   c08 record <out.ndjson> seed=N docs=N muts=K ins=K tiny=N
//!       impl -> spec: one event per call of succinctly::json::validate::validate
//!         {"e":"val","b":[bytes],"r":offset|-1(ok)|-2(panic),"ln":line,"col":column,"k":kind}
//!       validated by spec/Trace_Json.tla (the PDA of JsonGrammar.tla runs over the bytes).
//!   c08 replay <in.ndjson> <out.ndjson>
//!       spec -> impl: lines {"b":bytes,"acc":0|1,"v":Viable,"lc":[[line,col] for offsets 0..len]}
//!       produced by spec/Gen_JsonGrammar.tla; mismatches are written to <out>.
use succinctly::json::validate::{validate, ValidationErrorKind};
use verif_harness::*;

fn kind_code(k: &ValidationErrorKind) -> i64 {
    match k {
        ValidationErrorKind::UnexpectedCharacter { .. } => 1,
        ValidationErrorKind::UnexpectedEof { .. } => 2,
        ValidationErrorKind::TrailingContent => 3,
        ValidationErrorKind::UnclosedString => 4,
        ValidationErrorKind::InvalidEscape { .. } => 5,
        ValidationErrorKind::InvalidUnicodeEscape { .. } => 6,
        ValidationErrorKind::UnpairedSurrogate { .. } => 7,
        ValidationErrorKind::ControlCharacter { .. } => 8,
        ValidationErrorKind::LeadingZero => 9,
        ValidationErrorKind::LeadingPlus => 10,
        ValidationErrorKind::InvalidNumber { .. } => 11,
        ValidationErrorKind::InvalidKeyword { .. } => 12,
        ValidationErrorKind::InvalidUtf8 => 13,
        ValidationErrorKind::NestingTooDeep { .. } => 14,
    }
}

/// (offset | -1 ok | -2 panic, line, column, kind)
fn run(input: &[u8]) -> [i64; 4] {
    match guarded(|| validate(input)) {
        Err(_) => [-2, 0, 0, 0],
        Ok(Ok(())) => [-1, 0, 0, 0],
        Ok(Err(e)) => [
            clamp_i(e.position.offset as u64),
            clamp_i(e.position.line as u64),
            clamp_i(e.position.column as u64),
            kind_code(&e.kind),
        ],
    }
}

fn bytes_json(b: &[u8]) -> Value {
    Value::Array(b.iter().map(|&x| json!(x)).collect())
}

fn emit(tr: &mut Trace, fam: &str, b: &[u8]) {
    let r = run(b);
    tr.emit(json!({"e":"val","f":fam,"b":bytes_json(b),"r":r[0],"ln":r[1],"col":r[2],"k":r[3]}));
}

// ------------------------------------------------------------------------------------
// generator of valid documents
// ------------------------------------------------------------------------------------
fn ws(r: &mut Rng, out: &mut Vec<u8>, rich: bool) {
    let p = if rich { 2 } else { 6 };
    if r.below(p) != 0 {
        return;
    }
    const W: [&[u8]; 10] = [b" ", b"\n", b"\r\n", b"\r", b"\t", b"  ", b"\n\n", b"\r\r\n", b"\n\r", b" \n "];
    let w: &[u8] = *r.pick(&W[..]);
    out.extend_from_slice(w);
}

fn gen_string(r: &mut Rng, out: &mut Vec<u8>) {
    out.push(b'"');
    let n = r.below(5);
    for _ in 0..n {
        match r.below(14) {
            0..=3 => out.push(loop {
                let c = r.range(0x20, 0x7E) as u8;
                if c != b'"' && c != b'\\' {
                    break c;
                }
            }),
            4 => out.push(*r.pick(&[0x7Fu8, b' ', b'/', b'a', b'u'])),
            5 => out.extend_from_slice("é".as_bytes()),
            6 => out.extend_from_slice(r.pick(&["€", "\u{800}", "\u{FFFF}", "\u{D7FF}", "\u{E000}", "日"]).as_bytes()),
            7 => out.extend_from_slice(r.pick(&["🎉", "\u{10000}", "\u{10FFFF}"]).as_bytes()),
            8 | 9 => {
                out.push(b'\\');
                out.push(*r.pick(b"\"\\/bfnrt"));
            }
            10 => out.extend_from_slice(r.pick(&["\\u00e9", "\\u0000", "\\uFFFF", "\\uD7FF", "\\uE000", "\\u001f", "\\uaBcD"]).as_bytes()),
            11 => out.extend_from_slice(r.pick(&["\\uD83D\\uDE00", "\\ud800\\udc00", "\\uDBFF\\uDFFF", "\\uDbff\\uDc00"]).as_bytes()),
            _ => {
                let c = loop {
                    let c = r.range(0x80, 0x10FFFF) as u32;
                    if let Some(ch) = char::from_u32(c) {
                        break ch;
                    }
                };
                let mut buf = [0u8; 4];
                out.extend_from_slice(c.encode_utf8(&mut buf).as_bytes());
            }
        }
    }
    out.push(b'"');
}

const NUMBERS: [&str; 22] = [
    "0", "-0", "1", "9", "10", "-1", "123", "0.5", "-0.0", "1.25", "1e5", "1E5", "1e+5", "1e-5", "0e0", "2.5e10",
    "-3.14E-2", "1234567890123456789012", "1e999", "0.000", "-9.9e-99", "100",
];

fn gen_value(r: &mut Rng, out: &mut Vec<u8>, depth: u32, rich: bool) {
    let c = if depth >= 3 { r.below(6) } else { r.below(10) };
    match c {
        0 | 1 => out.extend_from_slice(r.pick(&NUMBERS).as_bytes()),
        2 | 3 => gen_string(r, out),
        4 => out.extend_from_slice(r.pick(&["true", "false", "null"]).as_bytes()),
        5 => out.extend_from_slice(r.pick(&["[]", "{}", "[ ]", "{\n}"]).as_bytes()),
        6 | 7 => {
            out.push(b'[');
            ws(r, out, rich);
            let n = r.range(1, 3);
            for i in 0..n {
                if i > 0 {
                    out.push(b',');
                    ws(r, out, rich);
                }
                gen_value(r, out, depth + 1, rich);
                ws(r, out, rich);
            }
            out.push(b']');
        }
        _ => {
            out.push(b'{');
            ws(r, out, rich);
            let n = r.range(1, 2);
            for i in 0..n {
                if i > 0 {
                    out.push(b',');
                    ws(r, out, rich);
                }
                gen_string(r, out);
                ws(r, out, rich);
                out.push(b':');
                ws(r, out, rich);
                gen_value(r, out, depth + 1, rich);
                ws(r, out, rich);
            }
            out.push(b'}');
        }
    }
}

fn gen_doc(r: &mut Rng, maxlen: usize, rich: bool) -> Vec<u8> {
    loop {
        let mut out = vec![];
        ws(r, &mut out, rich);
        gen_value(r, &mut out, 0, rich);
        ws(r, &mut out, rich);
        if out.len() <= maxlen {
            return out;
        }
    }
}

const SPREAD: [u8; 56] = [
    b'{', b'}', b'[', b']', b':', b',', b'"', b'\\', b'/', b'0', b'1', b'9', b'-', b'+', b'.', b'e', b'E', b'a', b't',
    b'r', b'u', b'f', b'n', b'l', b's', b'b', b'D', b'd', b'8', b'C', b'c', b'F', b'G', b'x', b' ', b'\t', b'\n', b'\r',
    0x00, 0x1F, 0x7F, 0x80, 0x9F, 0xA0, 0xBF, 0xC0, 0xC2, 0xE0, 0xED, 0xEF, 0xF0, 0xF4, 0xF5, 0xF8, 0xFF, b'A',
];

fn pick_values(r: &mut Rng, cur: Option<u8>, k: usize) -> Vec<u8> {
    if k >= SPREAD.len() {
        return SPREAD.iter().copied().filter(|&b| Some(b) != cur).collect();
    }
    let mut v: Vec<u8> = vec![];
    if let Some(b) = cur {
        if r.coin() {
            v.push(b ^ (1 << r.below(8)));
        }
    }
    while v.len() < k {
        let c = *r.pick(&SPREAD);
        if Some(c) != cur && !v.contains(&c) {
            v.push(c);
        }
    }
    v
}

fn mutate_all(tr: &mut Trace, r: &mut Rng, fam: &str, doc: &[u8], muts: usize, ins: usize) {
    emit(tr, fam, doc);
    for i in 0..doc.len() {
        for v in pick_values(r, Some(doc[i]), muts) {
            let mut m = doc.to_vec();
            m[i] = v;
            emit(tr, fam, &m);
        }
        let mut m = doc.to_vec();
        m.remove(i);
        emit(tr, fam, &m);
        emit(tr, fam, &doc[..i]);
    }
    for i in 0..=doc.len() {
        for v in pick_values(r, None, ins) {
            let mut m = doc.to_vec();
            m.insert(i, v);
            emit(tr, fam, &m);
        }
    }
}

fn nest(kind: u32, d: usize, closed: bool, wsep: &[u8]) -> Vec<u8> {
    // kind 0: arrays, 1: objects, 2: alternating
    let mut out = vec![];
    let mut closers = vec![];
    for i in 0..d {
        let obj = kind == 1 || (kind == 2 && i % 2 == 1);
        if obj {
            out.extend_from_slice(b"{\"a\":");
            closers.push(b'}');
        } else {
            out.push(b'[');
            closers.push(b']');
        }
        out.extend_from_slice(wsep);
    }
    out.push(b'1');
    if closed {
        while let Some(c) = closers.pop() {
            out.push(c);
        }
    }
    out
}

fn record(args: &Args) {
    let mut r = Rng::new(args.seed());
    let docs = args.u64("docs", 150) as usize;
    let muts = args.u64("muts", 3) as usize;
    let ins = args.u64("ins", 2) as usize;
    let tiny = args.u64("tiny", 4) as usize;
    let mut tr = Trace::create(&args.pos[1]);

    // ---- fixed probes: numbers, keywords, top level, escapes, surrogates
    let num_probes: [&str; 40] = [
        "0", "-0", "01", "-01", "00", "-", "1.", ".1", "1e", "1e+", "1E-2", "1.5e10", "0.", "0e0", "0x1", "+1", "1e1.5",
        "--1", "1-", "1.e1", "-.5", "1e+-1", "0.0.0", "1a", "-a", "9", "10", "1 ", " 1", "1\n", "1e5x", "0e", "0E+",
        "1.0E", "-1.5", "12.", "1,", "1]", "0 0", "-0.e",
    ];
    for p in num_probes.iter() {
        emit(&mut tr, "num", p.as_bytes());
        emit(&mut tr, "num", format!("[{p}]").as_bytes());
        emit(&mut tr, "num", format!("[{p},{p}]").as_bytes());
        emit(&mut tr, "num", format!("{{\"k\":{p}}}").as_bytes());
        emit(&mut tr, "num", format!("[{p}").as_bytes());
    }
    let kw_probes: [&str; 30] = [
        "true", "false", "null", "tru", "truE", "nul", "nulll", "True", "falsee", "t", "n1", "f", "nu", "fals", "truefalse",
        "null null", "nullx", "tr ue", "TRUE", "none", "nil", "undefined", "NaN", "Infinity", "-Infinity", "true,", "true]",
        "n", "nullnull", "falsetrue",
    ];
    for p in kw_probes.iter() {
        emit(&mut tr, "kw", p.as_bytes());
        emit(&mut tr, "kw", format!("[{p}]").as_bytes());
        emit(&mut tr, "kw", format!("\n\r\n [1,\r{p}").as_bytes());
        emit(&mut tr, "kw", format!("{{\"k\":{p}}}").as_bytes());
    }
    let top_probes: [&[u8]; 34] = [
        b"", b" ", b"\n", b"\r\n", b"\t\r \n", b"1 2", b"[] []", b"{}x", b"\"a\"b", b"[]]", b"{}}", b"[", b"{", b"]", b"}",
        b",", b":", b"[,]", b"[1,]", b"[,1]", b"{,}", b"{\"a\"}", b"{\"a\":}", b"{\"a\":1,}", b"{1:2}", b"{\"a\" 1}",
        b"[1 2]", b"[1:2]", b"{\"a\":1:2}", b"\xEF\xBB\xBF1", b"[\"a\",]", b"{\"a\":1 \"b\":2}", b"[\x0B]", b"[\x0C1]",
    ];
    for p in top_probes.iter() {
        emit(&mut tr, "top", p);
    }
    let esc_probes: [&[u8]; 40] = [
        b"\"\\n\"", b"\"\\v\"", b"\"\\x41\"", b"\"\\u0041\"", b"\"\\u004\"", b"\"\\u004g\"", b"\"\\U0041\"", b"\"\\\"", b"\"\\",
        b"\"\\u", b"\"\\u00", b"\"\\a\"", b"\"\\0\"", b"\"\\'\"", b"\"\\/\"", b"\"\\\\\"", b"\"\\\"\"", b"\"a\nb\"", b"\"a\tb\"",
        b"\"a\rb\"", b"\"\x00\"", b"\"\x1F\"", b"\"\x7F\"", b"\"\x20\"", b"\"a\r\nb\"", b"\"\\u000A\"", b"\"\\ua\"", b"\"\\uAbCd\"",
        b"\"\\uGGGG\"", b"\"\\u 041\"", b"\"\\u-041\"", b"\"\\u+041\"", b"'a'", b"\"a", b"\"", b"\"\\u12\xC3\xA9\"", b"\"\\\xC3\"",
        b"\"\\\n\"", b"\"\\ \"", b"\"\\u00e9\\u00E9\"",
    ];
    for p in esc_probes.iter() {
        emit(&mut tr, "esc", p);
        let mut v = b"\n[ ".to_vec();
        v.extend_from_slice(p);
        v.extend_from_slice(b" ]");
        emit(&mut tr, "esc", &v);
    }
    // surrogate escapes: pairs, lone halves, boundaries
    let sur_probes: [&str; 34] = [
        "\\uD83D\\uDE00", "\\ud800\\udc00", "\\uDBFF\\uDFFF", "\\uD7FF", "\\uE000", "\\uD800", "\\uDBFF", "\\uDC00", "\\uDFFF",
        "\\uD800x", "\\uD800\\n", "\\uD800\\u0041", "\\uD800\\uD800", "\\uD800\\uDBFF", "\\uD800\\uE000", "\\uDC00\\uD800",
        "\\uD800\\uDC0", "\\uD800\\u", "\\uD800\\", "\\uD800\\uDC00\\uDC00", "\\uD83D\\uDE00\\uD83D\\uDE00", "\\uD83D \\uDE00",
        "\\ud83d\\ude00", "\\uDa00\\uDd00", "\\uD900\\uDBFF", "\\uD8", "\\uD", "\\uDC", "\\uDG00", "\\uD7FF\\uDC00", "\\uDBFF\\uDC00x",
        "\\uDB00\\uDBFF\\uDC00", "\\uDE00\\uD83D", "\\uD800\\uDFFF\\uD800",
    ];
    for p in sur_probes.iter() {
        emit(&mut tr, "sur", format!("\"{p}\"").as_bytes());
        emit(&mut tr, "sur", format!("[\"{p}\", 1]").as_bytes());
        emit(&mut tr, "sur", format!("{{\"{p}\":\n\"{p}\"}}").as_bytes());
        emit(&mut tr, "sur", format!("\"{p}").as_bytes());
    }

    // ---- ill-formed / boundary UTF-8 inside strings (table 3-7 edges)
    let u8_probes: [&[u8]; 40] = [
        b"\xC2\x80", b"\xDF\xBF", b"\xE0\xA0\x80", b"\xED\x9F\xBF", b"\xEE\x80\x80", b"\xEF\xBF\xBF", b"\xF0\x90\x80\x80",
        b"\xF4\x8F\xBF\xBF", b"\xF4\x90\x80\x80", b"\xF5\x80\x80\x80", b"\xF7\xBF\xBF\xBF", b"\xED\xA0\x80", b"\xED\xBF\xBF",
        b"\xE0\x9F\xBF", b"\xE0\x80\x80", b"\xC0\x80", b"\xC1\xBF", b"\xF0\x8F\xBF\xBF", b"\xF0\x80\x80\x80", b"\xF8\x88\x80\x80\x80",
        b"\xFF", b"\xFE", b"\x80", b"\xBF", b"\xC2", b"\xE2\x82", b"\xF0\x9F\x8E", b"\xC2\x41", b"\xE2\x82\x41", b"\xE2\x41\x82",
        b"\xF0\x9F\x8E\x41", b"\xC2\xC2\x80", b"\xE1\x80\xC0", b"\xF1\x80\x80\xC0", b"\xF4\xBF\xBF\xBF", b"\xF3\xBF\xBF\xBF",
        b"\xEF\xBB\xBF", b"\xED\x80\x80", b"\xF4\x80\x80\x80", b"\xE0\xBF\xBF",
    ];
    for p in u8_probes.iter() {
        for (pre, post) in [(&b"\""[..], &b"\""[..]), (b"[\"a", b"b\"]"), (b"{\"", b"\":\n1}"), (b"\r\n\"", b"")] {
            let mut v = pre.to_vec();
            v.extend_from_slice(p);
            v.extend_from_slice(post);
            emit(&mut tr, "u8p", &v);
        }
        // outside a string it is never valid
        emit(&mut tr, "u8p", p);
    }

    // ---- nesting 126..131 (arrays / objects / alternating; closed, unclosed, with whitespace)
    for d in 126..=131usize {
        for kind in 0..3u32 {
            emit(&mut tr, "nest", &nest(kind, d, true, b""));
            emit(&mut tr, "nest", &nest(kind, d, false, b""));
            emit(&mut tr, "nest", &nest(kind, d, true, b"\r\n"));
            let mut v = nest(kind, d, true, b"");
            v.extend_from_slice(b" x");
            emit(&mut tr, "nest", &v);
        }
        // siblings at the deepest level must not accumulate depth
        let mut v = vec![b'['; d - 1];
        v.extend_from_slice(b"[],[],{},[[]]");
        v.extend(std::iter::repeat(b']').take(d - 1));
        emit(&mut tr, "nest", &v);
        let mut v = vec![b'['; d];
        v.extend(std::iter::repeat(b']').take(d));
        v.extend_from_slice(b"\n");
        v.extend(vec![b'['; 3]);
        emit(&mut tr, "nest", &v);
    }
    for &d in &[1usize, 2, 64, 127, 128, 129, 200, 1000] {
        emit(&mut tr, "nest", &vec![b'['; d]);
        emit(&mut tr, "nest", &nest(1, d.min(300), false, b""));
    }

    // ---- tiny documents: every byte value substituted / inserted at every offset
    let tiny_docs: [&[u8]; 12] = [b"[1]", b"{\"a\":1}", b"\"x\"", b"true", b"-1.5e2", b"[\"\\n\"]", b"null", b"[[],{}]", b" 0 ",
                                  b"\"\\u00e9\"", b"\"\xC3\xA9\"", b"[1,2]"];
    for doc in tiny_docs.iter().take(tiny) {
        emit(&mut tr, "tiny", doc);
        for i in 0..doc.len() {
            for v in 0..=255u8 {
                if v != doc[i] {
                    let mut m = doc.to_vec();
                    m[i] = v;
                    emit(&mut tr, "tiny", &m);
                }
            }
        }
        for i in 0..=doc.len() {
            for v in 0..=255u8 {
                let mut m = doc.to_vec();
                m.insert(i, v);
                emit(&mut tr, "tiny", &m);
            }
        }
    }

    // ---- generated documents and all their near misses
    for t in 0..docs {
        let rich = t % 3 == 0;
        let maxlen = match t % 5 {
            0 => 12,
            1 | 2 => 28,
            3 => 44,
            _ => 64,
        };
        let doc = gen_doc(&mut r, maxlen, rich);
        mutate_all(&mut tr, &mut r, "doc", &doc, muts, ins);
    }

    // ---- UTF-8 damage inside strings
    const DMG: [u8; 16] = [0x80, 0xBF, 0xC0, 0xC1, 0xC2, 0xE0, 0xED, 0xF0, 0xF4, 0xF5, 0xFF, 0x9F, 0xA0, 0x8F, 0x90, 0x41];
    for t in 0..(docs / 6 + 4) {
        let mut doc = b"[\"".to_vec();
        if t % 2 == 0 {
            doc = b"\r\n{\"k\":\t\"".to_vec();
        }
        let start = doc.len();
        for _ in 0..r.range(2, 6) {
            let c = loop {
                let c = match r.below(4) {
                    0 => r.range(0x20, 0x7E) as u32,
                    1 => r.range(0x80, 0x7FF) as u32,
                    2 => *r.pick(&[0x800u32, 0xFFF, 0x1000, 0xD7FF, 0xE000, 0xFFFF, 0x20AC]),
                    _ => *r.pick(&[0x10000u32, 0x3FFFF, 0x40000, 0x100000, 0x10FFFF, 0x1F389]),
                };
                if c != 0x22 && c != 0x5C {
                    if let Some(ch) = char::from_u32(c) {
                        break ch;
                    }
                }
            };
            let mut buf = [0u8; 4];
            doc.extend_from_slice(c.encode_utf8(&mut buf).as_bytes());
        }
        let end = doc.len();
        doc.extend_from_slice(if t % 2 == 0 { &b"\"}"[..] } else { &b"\"]"[..] });
        emit(&mut tr, "utf8", &doc);
        for i in start..end {
            for &d in DMG.iter() {
                if d != doc[i] {
                    let mut m = doc.clone();
                    m[i] = d;
                    emit(&mut tr, "utf8", &m);
                }
            }
            emit(&mut tr, "utf8", &doc[..i]);
            let mut m = doc.clone();
            m.remove(i);
            emit(&mut tr, "utf8", &m);
        }
    }

    let n = tr.finish();
    println!("{{\"events\":{n}}}");
}

fn replay(args: &Args) {
    if args.pos.len() < 3 {
        die("usage: c08 replay <in> <out>");
    }
    let mut out = Trace::create(&args.pos[2]);
    let text = std::fs::read_to_string(&args.pos[1]).unwrap_or_else(|e| die(&format!("read: {e}")));
    let (mut n, mut mism, mut acc_n, mut strict_lt) = (0u64, 0u64, 0u64, 0u64);
    for line in text.lines() {
        if line.trim().is_empty() {
            continue;
        }
        let c: Value = serde_json::from_str(line).unwrap_or_else(|e| die(&format!("bad line: {e}")));
        let b: Vec<u8> = c["b"].as_array().unwrap().iter().map(|x| x.as_u64().unwrap() as u8).collect();
        let acc = c["acc"].as_i64().unwrap();
        let v = c["v"].as_i64().unwrap();
        let got = run(&b);
        n += 1;
        acc_n += acc as u64;
        let mut why = "";
        if got[0] == -2 {
            why = "panic";
        } else if (got[0] == -1) != (acc == 1) {
            why = "accept";
        } else if got[0] >= 0 {
            if got[0] > v {
                why = "offset beyond viable prefix";
            } else {
                if got[0] < v {
                    strict_lt += 1;
                }
                let lc = c["lc"].as_array().unwrap();
                match lc.get(got[0] as usize) {
                    None => why = "offset beyond end",
                    Some(p) => {
                        if p[0].as_i64().unwrap() != got[1] || p[1].as_i64().unwrap() != got[2] {
                            why = "line/column";
                        }
                    }
                }
            }
        }
        if !why.is_empty() {
            mism += 1;
            if mism <= 40 {
                out.emit(json!({"why":why,"b":bytes_json(&b),"text":String::from_utf8_lossy(&b),"acc":acc,"v":v,
                                "got":{"r":got[0],"ln":got[1],"col":got[2],"k":got[3]}}));
            }
        }
    }
    out.finish();
    println!("{{\"cases\":{n},\"accepted\":{acc_n},\"offset_before_viable\":{strict_lt},\"mismatches\":{mism}}}");
}

fn main() {
    let args = Args::parse();
    if args.pos.len() < 2 {
        die("usage: c08 record <out> ... | c08 replay <in> <out>");
    }
    silence_panics();
    match args.pos[0].as_str() {
        "record" => record(&args),
        "replay" => replay(&args),
        _ => die("unknown subcommand"),
    }
}
