//! C32 — Simple-cursor JSON index navigates valid documents exactly.
//!
//! usage: c32 record <out.ndjson> seed=N docs=N maxlen=N
//!
//! Generates valid JSON documents (jscan_common::gen_doc; every document is re-parsed with
//! serde_json as a sanity check of the generator) and drives the real `SimpleJsonIndex`:
//!   {"e":"doc","cfg":route,"fam":..,"bytes":[..],"n":len,"spans":[[start,end,kind]..],
//!    "cnt":structural_count(),"sp":[structural_positions()..]}
//!   {"e":"q","op":"pos","a":k,"r":structural_pos(k)}          k = 0..cnt+1 and huge
//!   {"e":"q","op":"idx","a":p,"r":structural_index(p)}        every byte position (sampled when large)
//!   {"e":"q","op":"close","a":p,"r":find_close(json,p)}       every structural open bracket
//!   {"e":"q","op":"skip","a":p,"r":skip_value(json,p)}        first byte of every value and key
//! (-1 = None, -2 = panic).  Routes: "build" = SimpleJsonIndex::build (runtime-dispatched SIMD),
//! "sse2-parts" / "scalar-parts" = SimpleJsonIndex::from_parts over the words of
//! json::simd::x86::build_semi_index_simple / json::simple::build_semi_index (borrowed storage).
#[path = "jscan_common/mod.rs"]
mod common;
use common::*;
use succinctly::json::SimpleJsonIndex;
use verif_harness::*;

fn oi(r: Result<Option<usize>, String>) -> i64 {
    match r {
        Ok(Some(v)) => clamp_i(v as u64),
        Ok(None) => -1,
        Err(_) => -2,
    }
}

fn drive<W: AsRef<[u64]>>(tr: &mut Trace, r: &mut Rng, ix: &SimpleJsonIndex<W>, d: &Doc, cfg: &str) {
    let json = &d.bytes;
    let n = json.len();
    let cnt = guarded(|| ix.structural_count()).map(|c| c as i64).unwrap_or(-2);
    let sp: Vec<u64> = guarded(|| ix.structural_positions(json).map(|p| p as u64).collect::<Vec<_>>()).unwrap_or_default();
    let spans: Vec<Value> = d.spans.iter().map(|s| json!([s.0, s.1, s.2])).collect();
    tr.emit(json!({"e":"doc","cfg":cfg,"fam":d.family,"bytes":bytes_json(json),"n":n,"spans":spans,
                   "cnt":cnt,"sp":u64s_json(&sp)}));
    // structural_pos
    let c = sp.len();
    let mut ks: Vec<u64> = if c <= 400 {
        (0..c as u64 + 2).collect()
    } else {
        let mut v: Vec<u64> = (0..40).chain(c as u64 - 40..c as u64 + 2).collect();
        for _ in 0..320 {
            v.push(r.below(c as u64));
        }
        for w in 1..=(c as u64 / 64) {
            v.extend_from_slice(&[w * 64 - 1, w * 64, w * 64 + 1]);
        }
        v
    };
    ks.push(1 << 40);
    for k in ks {
        let res = guarded(|| ix.structural_pos(k as usize));
        tr.emit(json!({"e":"q","op":"pos","a":clamp_i(k),"r":oi(res)}));
    }
    // structural_index
    let mut ps: Vec<u64> = if n <= 700 {
        (0..n as u64 + 2).collect()
    } else {
        let mut v: Vec<u64> = vec![0, 1, n as u64 - 1, n as u64, n as u64 + 1];
        for &p in sp.iter() {
            if r.below(4) == 0 {
                v.extend_from_slice(&[p.saturating_sub(1), p, p + 1]);
            }
        }
        for _ in 0..300 {
            v.push(r.below(n as u64));
        }
        for w in 1..=(n as u64 / 64) {
            v.extend_from_slice(&[w * 64 - 1, w * 64]);
        }
        v
    };
    ps.push(1 << 40);
    for p in ps {
        let res = guarded(|| ix.structural_index(p as usize));
        tr.emit(json!({"e":"q","op":"idx","a":clamp_i(p),"r":oi(res)}));
    }
    // find_close at every structural open (sampled when there are very many)
    let opens: Vec<u64> = sp.iter().copied().filter(|&p| json[p as usize] == b'{' || json[p as usize] == b'[').collect();
    let many = opens.len() > 500;
    for (i, &p) in opens.iter().enumerate() {
        if many && i >= 60 && r.below(opens.len() as u64) >= 400 {
            continue;
        }
        let res = guarded(|| ix.find_close(json, p as usize));
        tr.emit(json!({"e":"q","op":"close","a":p,"r":oi(res)}));
    }
    // skip_value at the first byte of every value and key
    let manys = d.spans.len() > 900;
    for (i, s) in d.spans.iter().enumerate() {
        if manys && i >= 60 && r.below(d.spans.len() as u64) >= 800 {
            continue;
        }
        let res = guarded(|| ix.skip_value(json, s.0));
        tr.emit(json!({"e":"q","op":"skip","a":s.0,"r":oi(res)}));
    }
}

fn main() {
    let args = Args::parse();
    if args.pos.len() != 2 || args.pos[0] != "record" {
        die("usage: c32 record <out> seed=N docs=N maxlen=N");
    }
    silence_panics();
    let mut r = Rng::new(args.seed());
    let docs = args.u64("docs", 100);
    let maxlen = args.u64("maxlen", 3000) as usize;
    let mut tr = Trace::create(&args.pos[1]);
    let mut nbytes = 0usize;
    for i in 0..docs {
        let d = gen_doc(&mut r, maxlen);
        // (serde_json refuses nesting deeper than 128; the deep family's generator is the same
        // code for every depth, so its shallower instances vouch for the deeper ones)
        if d.chain <= 100 && serde_json::from_slice::<Value>(&d.bytes).is_err() {
            die(&format!("generator produced invalid JSON: {}", String::from_utf8_lossy(&d.bytes)));
        }
        nbytes += d.bytes.len();
        match i % 3 {
            0 => {
                let b = d.bytes.clone();
                match guarded(move || SimpleJsonIndex::build(&b)) {
                    Ok(ix) => drive(&mut tr, &mut r, &ix, &d, "build"),
                    Err(_) => tr.emit(json!({"e":"doc","cfg":"build","fam":d.family,"bytes":bytes_json(&d.bytes),
                                             "n":d.bytes.len(),"spans":[],"cnt":-2,"sp":[]})),
                }
            }
            k => {
                let cfg = if k == 1 { "sse2-parts" } else { "scalar-parts" };
                let semi = if k == 1 {
                    succinctly::json::simd::x86::build_semi_index_simple(&d.bytes)
                } else {
                    succinctly::json::simple::build_semi_index(&d.bytes)
                };
                let ones: usize = semi.ib.iter().map(|w| w.count_ones() as usize).sum();
                let (ib, bp) = (semi.ib.as_slice(), semi.bp.as_slice());
                let n = d.bytes.len();
                match guarded(|| SimpleJsonIndex::from_parts(ib, n, bp, 2 * ones)) {
                    Ok(ix) => drive(&mut tr, &mut r, &ix, &d, cfg),
                    Err(_) => tr.emit(json!({"e":"doc","cfg":cfg,"fam":d.family,"bytes":bytes_json(&d.bytes),
                                             "n":n,"spans":[],"cnt":-2,"sp":[]})),
                }
            }
        }
    }
    let n = tr.finish();
    println!("{{\"events\":{n},\"docs\":{docs},\"bytes\":{nbytes}}}");
}
