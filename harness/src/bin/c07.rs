//! C07 — JSON interest-bit rank/select, select with hint, node positions, offset -> node.
//!
//! usage: c07 record <out.ndjson> seed=N docs=N [maxbytes=N]
//!
//! Events (validated by spec/Trace_IbIndex.tla):
//!   {"e":"build","kind":"json|bytes","variant":"build|parts-owned|parts-borrowed|parts-padded|parts-short",
//!    "len":ib_len,"tlen":text length,"words":#ib words,"ones":[set-bit positions of ALL ib words],
//!    "ls":[line-start offsets, harness scan],"bytes":[text, small inputs only],
//!    "starts":[node start offsets from the generator, valid documents only],
//!    "nodes_ok":0|1 (every open parenthesis lies inside bp.len()), "strays":0|1, "r":#ones}
//!   {"e":"q","op":"rank","a":pos,"r":..}            a = -1: an integer >= 2^30
//!   {"e":"q","op":"select","a":k,"w32":k >= 2^32,"r":pos|-1}
//!   {"e":"q","op":"select_from","a":k,"h":hint,"r":pos|-1}
//!   {"e":"q","op":"text_position","a":node id,"r":pos|-1}
//!   {"e":"q","op":"cao","a":offset,"r":node id|-1}            cursor_at_offset
//!   {"e":"q","op":"cap","a":offset|-1,"l":line,"c":col,"r":node id|-1}   cursor_at_position
//! Node identity of a returned cursor = bp().rank1(bp_pos) if is_open(bp_pos), else -3.
#[path = "json_common/mod.rs"]
mod common;

use common::ib::*;
use common::*;
use succinctly::json::light::JsonIndex;
use verif_harness::*;

fn gen_bytes(r: &mut Rng, maxbytes: usize) -> Vec<u8> {
    const SOUP: &[u8] = b"[]{}\",:\\ \n\r\t0123456789-+.eEtruefalsn ax";
    let n = match r.below(6) {
        0 => r.below(8) as usize,
        1 => r.range(60, 70) as usize,
        2 => r.range(120, 200) as usize,
        _ => r.below(maxbytes as u64 + 1) as usize,
    };
    match r.below(8) {
        0 => (0..n).map(|_| r.below(256) as u8).collect(),
        1 => (0..n).map(|_| *r.pick(SOUP)).collect(),
        2 => vec![b'['; n],                               // dense: every byte is a node start
        3 => (0..n).map(|_| *r.pick(b"[{")).collect(),
        4 => {
            // one long string (sparse), unterminated or not
            let mut v = vec![b'"'];
            v.extend((0..n).map(|_| *r.pick(b"abc \\\\u\n")));
            if r.coin() {
                v.push(b'"');
            }
            v
        }
        5 => {
            // islands of structure separated by long runs of spaces / string bodies
            let mut v = vec![];
            while v.len() < n {
                let gap = *r.pick(&[1usize, 63, 64, 65, 127, 128, 129, 300, 1000]);
                v.extend(std::iter::repeat(b' ').take(gap));
                for _ in 0..r.range(1, 5) {
                    v.push(*r.pick(b"[]{},:1t\""));
                }
            }
            v
        }
        6 => {
            // closes first (more closes than opens), then opens
            let mut v: Vec<u8> = (0..n / 2).map(|_| *r.pick(b"]}")).collect();
            v.extend((0..n / 2).map(|_| *r.pick(b"[{1 ")));
            v
        }
        _ => {
            // a valid document with a few bytes overwritten
            let fam = *r.pick(&["small", "medium", "whitespace", "escapes"]);
            let mut v = gen_doc(r, fam, 1000).map(|d| d.text).unwrap_or_default();
            for _ in 0..r.range(1, 4) {
                if !v.is_empty() {
                    let i = r.below(v.len() as u64) as usize;
                    v[i] = *r.pick(SOUP);
                }
            }
            v
        }
    }
}

fn run(args: Args) {
    let mut r = Rng::new(args.seed());
    let docs = args.u64("docs", 100) as usize;
    let maxbytes = args.u64("maxbytes", 3000) as usize;
    let large = args.u64("large", 20000) as usize;
    let mut tr = Trace::create(&args.pos[1]);
    let mut q = Q { tr: &mut tr, wrap: true };
    let (mut njson, mut nbytes, mut nparts, mut total_bytes, mut cut) = (0usize, 0usize, 0usize, 0usize, 0usize);
    let mut nlarge = 0;
    for i in 0..docs {
        // alternate valid documents and arbitrary byte strings
        let (kind, text, starts): (&str, Vec<u8>, Option<Vec<usize>>) = if i % 2 == 0 {
            let mut fam = FAMILIES[(i / 2) % FAMILIES.len()];
            if fam == "large" {
                nlarge += 1;
                if nlarge > 2 {
                    fam = "longstr";
                }
            }
            match gen_doc(&mut r, fam, large) {
                Some(d) => {
                    let st = d.flat.iter().map(|f| f.s).collect();
                    ("json", d.text, Some(st))
                }
                None => continue,
            }
        } else {
            ("bytes", gen_bytes(&mut r, maxbytes), None)
        };
        total_bytes += text.len();
        if kind == "json" {
            njson += 1;
        } else {
            nbytes += 1;
        }
        let idx = match guarded(|| JsonIndex::build(&text)) {
            Ok(x) => x,
            Err(_) => {
                q.tr.emit(json!({"e":"build","kind":kind,"variant":"build","len":text.len(),"tlen":text.len(),"words":0,"r":-2,
                                 "nodes_ok":0,"strays":0,"ones":[],"ls":[0]}));
                continue;
            }
        };
        let ones = ones_of(idx.ib());
        let ls = line_starts(&text);
        let bp = idx.bp();
        let nodes_ok = guarded(|| bp.rank1(bp.len()) == ones.len()).unwrap_or(false);
        if !nodes_ok {
            cut += 1;
        }
        q.tr.emit(build_ev(&idx, kind, "build", &text, starts.clone(), &ones, &ls, nodes_ok, false));
        queries(&mut q, &mut r, &idx, &text, &ones, &ls, false, nodes_ok, true);

        // from_parts-rebuilt indexes (every third input; smaller query set)
        if i % 3 == 0 {
            nparts += 1;
            let ibw: Vec<u64> = idx.ib().to_vec();
            let bpw: Vec<u64> = idx.bp().words().to_vec();
            let (il, bl) = (idx.ib_len(), idx.bp().len());
            match r.below(4) {
                0 => {
                    let re = JsonIndex::from_parts(ibw.clone(), il, bpw.clone(), bl);
                    q.tr.emit(build_ev(&re, kind, "parts-owned", &text, starts.clone(), &ones, &ls, nodes_ok, false));
                    queries(&mut q, &mut r, &re, &text, &ones, &ls, false, nodes_ok, false);
                }
                1 => {
                    let re: JsonIndex<&[u64]> = JsonIndex::from_parts(&ibw[..], il, &bpw[..], bl);
                    q.tr.emit(build_ev(&re, kind, "parts-borrowed", &text, starts.clone(), &ones, &ls, nodes_ok, false));
                    queries(&mut q, &mut r, &re, &text, &ones, &ls, false, nodes_ok, false);
                }
                2 => {
                    // extra zero words after the interest bits: more words for the gallop to cross
                    let mut padded = ibw.clone();
                    padded.extend(std::iter::repeat(0u64).take(*r.pick(&[1usize, 2, 7, 8, 9, 33])));
                    let re = JsonIndex::from_parts(padded, il, bpw.clone(), bl);
                    q.tr.emit(build_ev(&re, kind, "parts-padded", &text, starts.clone(), &ones, &ls, nodes_ok, false));
                    queries(&mut q, &mut r, &re, &text, &ones, &ls, false, nodes_ok, false);
                }
                _ => {
                    // a shorter ib_len: set bits at or past it are stray storage bits (never selected)
                    if il > 0 {
                        let short = r.below(il as u64) as usize;
                        let re = JsonIndex::from_parts(ibw.clone(), short, bpw.clone(), bl);
                        let strays = ones.iter().any(|&o| o >= short as u64);
                        q.tr.emit(build_ev(&re, kind, "parts-short", &text, None, &ones, &ls, false, true));
                        let _ = strays;
                        queries(&mut q, &mut r, &re, &text, &ones, &ls, true, false, false);
                    }
                }
            }
        }
    }
    let n = tr.finish();
    println!("{{\"events\":{n},\"json_docs\":{njson},\"byte_strings\":{nbytes},\"rebuilt\":{nparts},\"bytes\":{total_bytes},\"inputs_with_cut_opens\":{cut}}}");
}

fn main() {
    let args = Args::parse();
    if args.pos.len() < 2 || args.pos[0] != "record" {
        die("usage: c07 record <out> seed=N docs=N");
    }
    silence_panics();
    std::thread::Builder::new()
        .stack_size(512 << 20)
        .spawn(move || run(args))
        .unwrap()
        .join()
        .unwrap_or_else(|_| die("worker panicked"));
}
