//! C13 — UTF-8 validation = Unicode definition on every engine.
//!
//! usage:
//!   c13 record <out.ndjson> seed=N texts=N damages=K full=0|1
//!       impl -> spec: events validated by spec/Trace_Utf8.tla
//!         {"e":"v","b":[bytes],"r":off,"all":[[off,kind,line,col] x engines]}
//!         {"e":"dec","b":[bytes],"r":cp|-1,"n":len|0}
//!         {"e":"seqlen","a":byte,"r":len}
//!         {"e":"enc","a":cp|-1(huge),"r":len|-1,"b":[bytes]}
//!         {"e":"rtblk","lo":cp0,"cnt":n,"enc":[[bytes]..],"dec":[[cp,len]..]}
//!   c13 replay <in.ndjson> <out.ndjson>
//!       spec -> impl: lines {"b":core,"r":[[off,kind,line,col] for tails A^0..A^3],"d":[cp,len]}
//!       produced by spec/Gen_Utf8.tla.  Every core is embedded behind 0..=40 and 60..=66
//!       bytes of LF-free ASCII padding and in front of tails of 0,1,2,3,8,33 ASCII bytes and
//!       run through all engines; the expected answer is the spec's answer for the core
//!       shifted by the padding length (embedding lemma, model-checked in MC_Utf8).
//!
//! Engines, in the order of "all": validate_utf8, validate_utf8_scalar,
//! validate_utf8_simd (AVX2 accept scan + scalar), validate_utf8_broadword.
use succinctly::text::utf8::{
    decode_code_point, encode_code_point, sequence_length, validate_utf8, validate_utf8_broadword,
    validate_utf8_scalar, Utf8Error, Utf8ErrorKind,
};
use verif_harness::*;

#[cfg(target_arch = "x86_64")]
use succinctly::text::utf8::validate_utf8_simd;

const NENG: usize = 4;
const ENGINE_NAMES: [&str; NENG] = ["validate_utf8", "scalar", "simd", "broadword"];

fn kind_code(k: Utf8ErrorKind) -> i64 {
    match k {
        Utf8ErrorKind::InvalidLeadByte => 1,
        Utf8ErrorKind::InvalidContinuationByte => 2,
        Utf8ErrorKind::OverlongEncoding => 3,
        Utf8ErrorKind::SurrogateCodepoint => 4,
        Utf8ErrorKind::OutOfRangeCodepoint => 5,
        Utf8ErrorKind::TruncatedSequence => 6,
    }
}

fn call(engine: usize, input: &[u8]) -> Result<(), Utf8Error> {
    match engine {
        0 => validate_utf8(input),
        1 => validate_utf8_scalar(input),
        #[cfg(target_arch = "x86_64")]
        2 => validate_utf8_simd(input),
        #[cfg(not(target_arch = "x86_64"))]
        2 => validate_utf8_scalar(input),
        _ => validate_utf8_broadword(input),
    }
}

fn run(engine: usize, input: &[u8]) -> [i64; 4] {
    match guarded(|| call(engine, input)) {
        Err(_) => [-2, 0, 0, 0],
        Ok(Ok(())) => [-1, 0, 0, 0],
        Ok(Err(e)) => [e.offset as i64, kind_code(e.kind), e.line as i64, e.column as i64],
    }
}

fn bytes_json(b: &[u8]) -> Value {
    Value::Array(b.iter().map(|&x| json!(x)).collect())
}

fn emit_v(tr: &mut Trace, b: &[u8]) {
    let all: Vec<[i64; 4]> = (0..NENG).map(|e| run(e, b)).collect();
    tr.emit(json!({"e":"v","b":bytes_json(b),"r":all[0][0],
                   "all": all.iter().map(|a| json!(a)).collect::<Vec<_>>()}));
}

fn enc(cp: u32) -> Vec<u8> {
    match encode_code_point(cp) {
        Some((buf, n)) => buf[..n].to_vec(),
        None => vec![],
    }
}

fn gen_char(r: &mut Rng) -> u32 {
    match r.below(16) {
        0..=4 => r.range(0x20, 0x7E) as u32,
        5 => 0x0A,
        6 => *r.pick(&[0x0Bu32, 0x01, 0x0D, 0x09, 0x00, 0x7F, 0x0A]),
        7 => *r.pick(&[0x80u32, 0x7FF, 0xA9, 0x3B1]),
        8 => r.range(0x80, 0x7FF) as u32,
        9 => *r.pick(&[0x800u32, 0xFFF, 0x1000, 0xCFFF, 0xD000, 0xD7FF, 0xE000, 0xFFFD, 0xFFFF]),
        10 | 11 => loop {
            let c = r.range(0x800, 0xFFFF) as u32;
            if !(0xD800..=0xDFFF).contains(&c) {
                break c;
            }
        },
        12 => *r.pick(&[0x10000u32, 0x3FFFF, 0x40000, 0xFFFFF, 0x100000, 0x10FFFF, 0x1F389]),
        _ => r.range(0x10000, 0x10FFFF) as u32,
    }
}

fn gen_text(r: &mut Rng, target: usize) -> Vec<u8> {
    let mut out = vec![];
    // sometimes start with an ASCII run so multi-byte material lands beyond the 8/32-byte strides
    if r.chance(1, 3) {
        let n = *r.pick(&[7usize, 8, 9, 15, 16, 17, 30, 31, 32, 33, 40]);
        for i in 0..n {
            out.push(if r.chance(1, 9) { b'\n' } else { b'a' + (i % 26) as u8 });
        }
    }
    while out.len() < target {
        out.extend(enc(gen_char(r)));
    }
    out
}

fn damage_values(b: u8, r: &mut Rng, k: usize) -> Vec<u8> {
    const FIXED: [u8; 24] = [
        0x80, 0xBF, 0xC0, 0xC1, 0xC2, 0xDF, 0xE0, 0xED, 0xEF, 0xF0, 0xF4, 0xF5, 0xF7, 0xF8, 0xFF, 0x41, 0x0A,
        0x00, 0x9F, 0xA0, 0x8F, 0x90, 0x7F, 0xEE,
    ];
    let mut v = vec![];
    while v.len() < k {
        let c = match r.below(10) {
            0 => b ^ 0x80,
            1 => b ^ 0x40,
            2 => b ^ 0x20,
            3 => b.wrapping_add(1),
            4 => b.wrapping_sub(1),
            5 => b ^ (1 << r.below(8)),
            _ => *r.pick(&FIXED),
        };
        if c != b && !v.contains(&c) {
            v.push(c);
        }
    }
    v
}

fn record(args: &Args) {
    let mut r = Rng::new(args.seed());
    let texts = args.u64("texts", 60) as usize;
    let k = args.u64("damages", 2) as usize;
    let full = args.u64("full", 0) == 1;
    let mut tr = Trace::create(&args.pos[1]);

    // ---- sequence_length for all 256 bytes
    for b in 0..=255u8 {
        let v = guarded(|| sequence_length(b)).map(|x| x as i64).unwrap_or(-2);
        tr.emit(json!({"e":"seqlen","a":b,"r":v}));
    }

    // ---- random multi-byte text, one damaged byte at every offset, every truncation
    for t in 0..texts {
        let target = match t % 4 {
            0 => r.range(1, 12),
            1 => r.range(12, 40),
            2 => r.range(40, 80),
            _ => r.range(60, 130),
        } as usize;
        let text = gen_text(&mut r, target);
        emit_v(&mut tr, &text);
        for i in 0..text.len() {
            for d in damage_values(text[i], &mut r, k) {
                let mut m = text.clone();
                m[i] = d;
                emit_v(&mut tr, &m);
            }
            emit_v(&mut tr, &text[..i]); // truncation
            if t % 3 == 0 {
                // deletion and insertion
                let mut m = text.clone();
                m.remove(i);
                emit_v(&mut tr, &m);
                let mut m = text.clone();
                m.insert(i, damage_values(0x41, &mut r, 1)[0]);
                emit_v(&mut tr, &m);
            }
        }
    }

    // ---- directed line/column cases: ASCII prefix with line breaks at every position relative
    //      to the 8-byte stride of line_and_column, then an ill-formed byte
    let pats: [&[u8]; 9] = [b"\n", b"\n\n", b"\n\x0B", b"\n\x01", b"\x0B\n", b"\r\n", b"\r", b"\n\x0A\x0B\n", b"\x0A\x8A"];
    for pre in 0..=42usize {
        for pat in pats.iter() {
            if pat.len() > pre {
                continue;
            }
            for j in 0..=(pre - pat.len()) {
                let mut b: Vec<u8> = (0..pre).map(|i| b'a' + (i % 23) as u8).collect();
                b[j..j + pat.len()].copy_from_slice(pat);
                b.push(*r.pick(&[0xFFu8, 0x80, 0xC0, 0xE0, 0xF5]));
                if r.coin() {
                    b.extend_from_slice(b"xy\nz");
                }
                emit_v(&mut tr, &b);
            }
        }
    }
    for &n in &[63usize, 64, 65, 127, 128, 129, 255, 256, 257, 300] {
        for _ in 0..6 {
            let mut b: Vec<u8> = (0..n).map(|_| if r.chance(1, 7) { b'\n' } else if r.chance(1, 9) { 0x0B } else { r.range(0x20, 0x7E) as u8 }).collect();
            let sfx = enc(gen_char(&mut r));
            b.extend_from_slice(&sfx);
            b.push(*r.pick(&[0xFFu8, 0xBF, 0xC1, 0xED, 0xF4]));
            b.push(*r.pick(&[0xA0u8, 0x90, 0x41, 0x80]));
            emit_v(&mut tr, &b);
        }
    }

    // ---- many lines before the error: line counts that overflow any narrow (8-bit, 16-bit)
    //      per-lane tally and straddle the counting strides (very short lines, dense LF runs)
    for &nl in &[200usize, 255, 256, 257, 300, 511, 512, 513, 1000, 2100, 66000] {
        for variant in 0..3 {
            if nl > 3000 && variant > 0 {
                continue;
            }
            let mut b: Vec<u8> = Vec::new();
            for i in 0..nl {
                match variant {
                    0 => {}                                             // bare LF runs
                    1 => b.push(b'0' + (i % 10) as u8),                 // 2-byte lines
                    _ => b.extend(std::iter::repeat(b'x').take(r.below(7) as usize)), // < 8 bytes per line
                }
                b.push(b'\n');
            }
            b.extend_from_slice(b"ab");
            b.push(*r.pick(&[0xFFu8, 0x80, 0xC0, 0xF5]));
            emit_v(&mut tr, &b);
        }
    }

    // ---- decode_code_point on arbitrary short strings
    const EDGE: [u8; 24] = [
        0x00, 0x41, 0x7F, 0x80, 0x8F, 0x90, 0x9F, 0xA0, 0xBF, 0xC0, 0xC1, 0xC2, 0xDF, 0xE0, 0xE1, 0xED, 0xEE, 0xEF,
        0xF0, 0xF1, 0xF4, 0xF5, 0xF7, 0xF8,
    ];
    tr.emit(json!({"e":"dec","b":[],"r":-1,"n":0}));
    for i in 0..3000 {
        let b: Vec<u8> = if i % 3 == 0 {
            let mut e = enc(gen_char(&mut r));
            match r.below(4) {
                0 => {
                    e.pop();
                }
                1 => e.push(*r.pick(&EDGE)),
                2 => {
                    let j = r.below(e.len() as u64) as usize;
                    e[j] = *r.pick(&EDGE);
                }
                _ => {}
            }
            e
        } else {
            (0..r.range(1, 5)).map(|_| *r.pick(&EDGE)).collect()
        };
        let d = guarded(|| decode_code_point(&b));
        let (cp, n) = match d {
            Err(_) => (-2, -2),
            Ok(None) => (-1, 0),
            Ok(Some((c, n))) => (c as i64, n as i64),
        };
        tr.emit(json!({"e":"dec","b":bytes_json(&b),"r":cp,"n":n}));
    }

    // ---- encode_code_point single values incl. huge ones
    for &cp in &[0u32, 0x7F, 0x80, 0xD7FF, 0xD800, 0xDBFF, 0xDC00, 0xDFFF, 0xE000, 0x10FFFF, 0x110000, 0x1FFFFF,
                 0x200000, 0x3FFFFFFF, 0x40000000, 0x7FFFFFFF, 0x80000000, 0xFFFFFFFF] {
        let e = guarded(|| encode_code_point(cp));
        let (n, b) = match e {
            Err(_) => (-2, vec![]),
            Ok(None) => (-1, vec![]),
            Ok(Some((buf, n))) => (n as i64, buf[..n].to_vec()),
        };
        tr.emit(json!({"e":"enc","a":clamp_i(cp as u64),"r":n,"b":bytes_json(&b)}));
    }

    // ---- encode/decode round trip in blocks
    let mut blocks: Vec<(u32, u32)> = vec![];
    if full {
        let mut lo = 0u32;
        while lo < 0x110100 {
            blocks.push((lo, 256));
            lo += 256;
        }
    } else {
        for &e in &[0u32, 0x80, 0x800, 0xD800, 0xDC00, 0xE000, 0x10000, 0x40000, 0x100000, 0x110000] {
            blocks.push((e.saturating_sub(8), 16));
        }
        for _ in 0..800 {
            blocks.push((r.below(0x110000) as u32, 64));
        }
    }
    for (lo, cnt) in blocks {
        let mut encs = vec![];
        let mut decs = vec![];
        for cp in lo..lo + cnt {
            let e = guarded(|| enc(cp)).unwrap_or_else(|_| vec![0xFF]);
            let d = if e.is_empty() {
                json!([-1, 0])
            } else {
                match guarded(|| decode_code_point(&e)) {
                    Err(_) => json!([-2, -2]),
                    Ok(None) => json!([-1, 0]),
                    Ok(Some((c, n))) => json!([c, n]),
                }
            };
            encs.push(bytes_json(&e));
            decs.push(d);
        }
        tr.emit(json!({"e":"rtblk","lo":lo,"cnt":cnt,"enc":encs,"dec":decs}));
    }

    let n = tr.finish();
    println!("{{\"events\":{n}}}");
}

fn replay(args: &Args) {
    if args.pos.len() < 3 {
        die("usage: c13 replay <in> <out>");
    }
    let cases = read_ndjson(&args.pos[1]);
    let mut out = Trace::create(&args.pos[2]);
    let pres: Vec<usize> = (0..=40).chain(60..=66).collect();
    const TAILS: [usize; 6] = [0, 1, 2, 3, 8, 33];
    let mut calls = 0u64;
    let mut mism = 0u64;
    let mut buf: Vec<u8> = Vec::with_capacity(256);
    for c in &cases {
        let core: Vec<u8> = c["b"].as_array().unwrap().iter().map(|x| x.as_u64().unwrap() as u8).collect();
        let preds: Vec<[i64; 4]> = c["r"]
            .as_array()
            .unwrap()
            .iter()
            .map(|a| {
                let a = a.as_array().unwrap();
                [a[0].as_i64().unwrap(), a[1].as_i64().unwrap(), a[2].as_i64().unwrap(), a[3].as_i64().unwrap()]
            })
            .collect();
        // decode_code_point of the core
        let d = c["d"].as_array().unwrap();
        let want_d = (d[0].as_i64().unwrap(), d[1].as_i64().unwrap());
        let got_d = match guarded(|| decode_code_point(&core)) {
            Err(_) => (-2, -2),
            Ok(None) => (-1, 0),
            Ok(Some((cp, n))) => (cp as i64, n as i64),
        };
        calls += 1;
        if got_d != want_d {
            mism += 1;
            if mism <= 40 {
                out.emit(json!({"api":"decode_code_point","b":bytes_json(&core),"got":[got_d.0,got_d.1],"want":[want_d.0,want_d.1]}));
            }
        }
        for &pre in &pres {
            for &tail in &TAILS {
                buf.clear();
                for i in 0..pre {
                    buf.push(0x20 + ((i * 7 + pre) % 0x5F) as u8);
                }
                buf.extend_from_slice(&core);
                for i in 0..tail {
                    buf.push(0x30 + ((i * 5) % 0x4A) as u8);
                }
                let p = preds[tail.min(3)];
                let want = if p[0] == -1 {
                    p
                } else {
                    [p[0] + pre as i64, p[1], p[2], if p[2] == 1 { p[3] + pre as i64 } else { p[3] }]
                };
                for e in 0..NENG {
                    let got = run(e, &buf);
                    calls += 1;
                    if got != want {
                        mism += 1;
                        if mism <= 40 {
                            out.emit(json!({"api":ENGINE_NAMES[e],"b":bytes_json(&core),"pre":pre,"tail":tail,
                                            "input":bytes_json(&buf),"got":got,"want":want}));
                        }
                    }
                }
            }
        }
    }
    out.finish();
    println!("{{\"cores\":{},\"calls\":{},\"mismatches\":{}}}", cases.len(), calls, mism);
}

fn main() {
    let args = Args::parse();
    if args.pos.len() < 2 {
        die("usage: c13 record <out> ... | c13 replay <in> <out>");
    }
    silence_panics();
    match args.pos[0].as_str() {
        "record" => record(&args),
        "replay" => replay(&args),
        _ => die("unknown subcommand"),
    }
}
