//! C31 — index serialization round-trips and tolerates any byte alignment.
//!
//! usage: c31 record <out-prefix> seed=N [rounds=N] [docs=N] [vectors=N]
//! writes four traces:
//!   <prefix>-binary.ndjson   (spec/Trace_Binary.tla)   words <-> bytes, every alignment offset
//!   <prefix>-bitvec.ndjson   (spec/Trace_BitVec.tla)   BitVec original / rebuilt from serialized words
//!   <prefix>-jsondoc.ndjson  (spec/Trace_JsonDoc.tla)  JsonIndex original / rebuilt: navigation (C06 walker)
//!   <prefix>-ib.ndjson       (spec/Trace_IbIndex.tla)  JsonIndex original / rebuilt: interest-bit queries (C07)
//! In the last three every original group is followed by its rebuilt groups driven by the SAME
//! seeded query stream; checks/c31.py additionally requires the groups' answers to be identical.
//!
//! Binary events:
//!   {"e":"w2b","words":[[set bits]..],"bytes":[..],"r":#bytes}
//!   {"e":"b2w","api":"bytes_to_words|bytes_to_words_vec|try_bytes_to_words|semi_from_bytes","off":0..7,
//!    "mis":address % 8 != 0,"n":len,"bytes":[..],"r":#words|-1 None|-2 panic,"words":[[set bits]..]}
//!   {"e":"same","kind":"bp","n":#queries,"r":#equal answers}
#[path = "json_common/mod.rs"]
mod common;

use common::ib::*;
use common::*;
use succinctly::binary::{bytes_to_words, bytes_to_words_vec, try_bytes_to_words, words_to_bytes};
use succinctly::json::light::JsonIndex;
use succinctly::json::standard::SemiIndex;
use succinctly::trees::BalancedParens;
use succinctly::{BitVec, RankSelect};
use verif_harness::*;

/// An 8-aligned copy of `bytes` (backed by u64 storage).
struct Aligned {
    w: Vec<u64>,
    n: usize,
}

impl Aligned {
    fn of(bytes: &[u8], slack_words: usize) -> Self {
        let mut w = vec![0u64; bytes.len().div_ceil(8) + slack_words];
        for (i, ch) in bytes.chunks(8).enumerate() {
            let mut b = [0u8; 8];
            b[..ch.len()].copy_from_slice(ch);
            w[i] = u64::from_ne_bytes(b);
        }
        Aligned { w, n: bytes.len() }
    }
    fn all(&self) -> &[u8] {
        words_to_bytes(&self.w)
    }
    fn bytes(&self) -> &[u8] {
        &self.all()[..self.n]
    }
}

fn bits_json(ws: &[u64]) -> Value {
    Value::Array(ws.iter().map(|&w| json!(word_bits(w))).collect())
}

fn gen_word(r: &mut Rng) -> u64 {
    match r.below(7) {
        0 => 0,
        1 => u64::MAX,
        2 => 1u64 << r.below(64),
        3 => r.next_u64(),
        4 => r.below(256) * 0x0101_0101_0101_0101,
        5 => 0x0123_4567_89AB_CDEF,
        _ => (r.below(256) << 56) | r.below(256),
    }
}

fn b2w_events(tr: &mut Trace, off: usize, slice: &[u8]) {
    let mis = i32::from(slice.as_ptr() as usize % 8 != 0);
    let n = slice.len();
    let emit = |tr: &mut Trace, api: &str, res: Result<Option<Vec<u64>>, String>| {
        let (r, words) = match res {
            Err(_) => (-2i64, vec![]),
            Ok(None) => (-1, vec![]),
            Ok(Some(w)) => (w.len() as i64, w),
        };
        tr.emit(json!({"e":"b2w","api":api,"off":off,"mis":mis,"n":n,"bytes":slice,"r":r,"words":bits_json(&words)}));
    };
    emit(tr, "bytes_to_words", guarded(|| Some(bytes_to_words(slice).to_vec())));
    emit(tr, "bytes_to_words_vec", guarded(|| Some(bytes_to_words_vec(slice))));
    emit(tr, "try_bytes_to_words", guarded(|| try_bytes_to_words(slice).map(|w| w.to_vec())));
    if n % 8 == 0 && (n / 8) % 2 == 0 {
        emit(tr, "semi_from_bytes", guarded(|| {
            let s = SemiIndex::from_bytes(slice, slice);
            if s.ib == s.bp { Some(s.ib) } else { Some(vec![]) }
        }));
    }
}

fn binary_trace(tr: &mut Trace, r: &mut Rng, rounds: usize) {
    for _ in 0..rounds {
        // word vectors -> bytes -> words
        for nw in 0..=6usize {
            let ws: Vec<u64> = (0..nw).map(|_| gen_word(r)).collect();
            let by = guarded(|| words_to_bytes(&ws).to_vec());
            match by {
                Ok(b) => {
                    tr.emit(json!({"e":"w2b","words":bits_json(&ws),"bytes":b,"r":b.len()}));
                    // the bytes just produced, back to words (aligned: they view the word storage)
                    let view = words_to_bytes(&ws);
                    b2w_events(tr, 0, view);
                }
                Err(_) => tr.emit(json!({"e":"w2b","words":bits_json(&ws),"bytes":[],"r":-2})),
            }
        }
        // every length 0..=40 at every offset 0..=7 of an 8-aligned buffer
        let fill: Vec<u8> = (0..64).map(|_| match r.below(4) { 0 => 0, 1 => 255, _ => r.below(256) as u8 }).collect();
        let buf = Aligned::of(&fill, 0);
        let all = buf.all();
        assert!(all.as_ptr() as usize % 8 == 0);
        for off in 0..8usize {
            for n in 0..=40usize {
                b2w_events(tr, off, &all[off..off + n]);
            }
        }
        // page-sized and larger slices at every offset (bulk-copy paths start at some size)
        let bigfill: Vec<u8> = (0..8300).map(|i| ((i * 7 + 3) % 251) as u8 ^ (r.below(2) as u8)).collect();
        let bigbuf = Aligned::of(&bigfill, 0);
        let ball = bigbuf.all();
        for off in 0..8usize {
            for &n in &[4088usize, 4096, 4104, 8192] {
                if off + n <= ball.len() {
                    b2w_events(tr, off, &ball[off..off + n]);
                }
            }
        }
    }
}

// ---------------------------------------------------------------------------------------
// BitVec original / rebuilt (events in the format of spec/Trace_BitVec.tla)
// ---------------------------------------------------------------------------------------

fn bitvec_group(tr: &mut Trace, r: &mut Rng, cfg: &str, bv: &BitVec, words: &[u64], len: usize) {
    let rl = rle_of_words(words);
    let zeros = guarded(|| bv.count_zeros());
    tr.emit(json!({"e":"build","cfg":cfg,"rl":rle_json(&rl),"len":len,"rate":256,
                   "rlen":bv.len(),"ones":bv.count_ones(),
                   "zeros": match zeros { Ok(z) => json!(z), Err(_) => json!(-2) },
                   "empty": i32::from(bv.is_empty())}));
    let ones = bv.count_ones() as u64;
    let l = len as u64;
    let mut ps: Vec<u64> = vec![0, 1, l, l + 1, l.saturating_sub(1), u64::MAX, 1 << 31];
    let mut ks: Vec<u64> = vec![0, 1, ones, ones + 1, ones.saturating_sub(1), l - ones.min(l), u64::MAX];
    for _ in 0..25 {
        ps.push(r.below(l + 2));
        ps.push(r.below(words.len() as u64 + 1) * 64);
        ks.push(r.below(ones + 1));
        ks.push(r.below(l - ones.min(l) + 1));
    }
    for &p in &ps {
        let pu = p as usize;
        let a = clamp_i(p);
        tr.emit(json!({"e":"q","op":"rank1","a":a,"r": guarded(|| RankSelect::rank1(bv, pu)).map(|v| v as i64).unwrap_or(-2)}));
        tr.emit(json!({"e":"q","op":"rank0","a":a,"r": guarded(|| RankSelect::rank0(bv, pu)).map(|v| v as i64).unwrap_or(-2)}));
        tr.emit(json!({"e":"q","op":"get","a":a,"r": guarded(|| bv.get(pu)).map(i64::from).unwrap_or(-2)}));
    }
    for &k in &ks {
        let ku = k as usize;
        let a = clamp_i(k);
        tr.emit(json!({"e":"q","op":"select1","a":a,
                       "r": guarded(|| RankSelect::select1(bv, ku)).map(|v| v.map(|x| x as i64).unwrap_or(-1)).unwrap_or(-2)}));
        tr.emit(json!({"e":"q","op":"select0","a":a,
                       "r": guarded(|| bv.select0(ku)).map(|v| v.map(|x| x as i64).unwrap_or(-1)).unwrap_or(-2)}));
    }
}

fn bitvec_trace(tr: &mut Trace, r: &mut Rng, vectors: usize) {
    for _ in 0..vectors {
        let nw = match r.below(4) {
            0 => r.below(4) as usize,
            1 => r.range(7, 18) as usize,
            _ => r.range(1, 80) as usize,
        };
        let dense = r.coin();
        let words: Vec<u64> = (0..nw).map(|_| if dense { r.next_u64() } else { gen_word(r) }).collect();
        let cap = nw * 64;
        let len = if cap == 0 { 0 } else if r.coin() { cap } else { r.below(cap as u64 + 1) as usize };
        let seed_q = r.next_u64();
        let orig = BitVec::from_words(words.clone(), len);
        bitvec_group(tr, &mut Rng::new(seed_q), "original", &orig, &words, len);
        // serialize, move the bytes somewhere else (8-aligned), read back, rebuild
        let bytes: Vec<u8> = words_to_bytes(orig.words()).to_vec();
        let al = Aligned::of(&bytes, 0);
        let back = match guarded(|| bytes_to_words_vec(al.bytes())) {
            Ok(w) => w,
            Err(_) => continue,
        };
        // note: BitVec masks its storage past len, so the serialized words are the masked ones
        match guarded(|| BitVec::from_words(back.clone(), len)) {
            Ok(re) => bitvec_group(tr, &mut Rng::new(seed_q), "rebuilt", &re, &back, len),
            Err(_) => {
                // the rebuilt constructor panicked: a build event that cannot match
                let rl = rle_of_words(&back);
                tr.emit(json!({"e":"build","cfg":"rebuilt","rl":rle_json(&rl),"len":len,"rate":256,
                               "rlen":-2,"ones":-2,"zeros":-2,"empty":-2}));
            }
        }
    }
}

// ---------------------------------------------------------------------------------------
// JSON index original / rebuilt
// ---------------------------------------------------------------------------------------

fn bp_same<W1: AsRef<[u64]>, W2: AsRef<[u64]>>(a: &BalancedParens<W1>, b: &BalancedParens<W2>, r: &mut Rng) -> (usize, usize) {
    let len = a.len();
    let mut ps: Vec<usize> = if len <= 400 { (0..len + 2).collect() } else { (0..300).map(|_| r.below(len as u64 + 2) as usize).collect() };
    ps.push(len);
    let (mut n, mut eq) = (0, 0);
    if a.len() == b.len() { eq += 1; }
    n += 1;
    for &p in &ps {
        let qa = guarded(|| (a.find_close(p), a.first_child(p), a.next_sibling(p), a.parent(p), a.rank1(p), a.is_open(p), a.find_open(p), a.excess(p)));
        let qb = guarded(|| (b.find_close(p), b.first_child(p), b.next_sibling(p), b.parent(p), b.rank1(p), b.is_open(p), b.find_open(p), b.excess(p)));
        n += 1;
        if qa == qb {
            eq += 1;
        }
    }
    (n, eq)
}

#[allow(clippy::too_many_arguments)]
fn json_group<W: AsRef<[u64]>>(trj: &mut Trace, tri: &mut Trace, doc: &Doc, id: usize, variant: &str, idx: &JsonIndex<W>,
                               seed_q: u64) {
    // navigation (C06)
    trj.emit(build_event(doc, id, variant, 40));
    let mut r = Rng::new(seed_q);
    let big = doc.flat.len() > 3000;
    let mut w = Walker { tr: trj, idx, text: &doc.text, flat: &doc.flat, panicked: false };
    if w.dfs(&mut r, if big { 2 } else { 4 }, if big { 7 } else { 1 }).is_some() {
        let _ = w.random_walk(&mut r, 40);
    }
    // interest bits (C07)
    let ones = ones_of(idx.ib());
    let ls = line_starts(&doc.text);
    let bp = idx.bp();
    let nodes_ok = guarded(|| bp.rank1(bp.len()) == ones.len()).unwrap_or(false);
    let starts = doc.flat.iter().map(|f| f.s).collect();
    tri.emit(build_ev(idx, "json", variant, &doc.text, Some(starts), &ones, &ls, nodes_ok, false));
    let mut r2 = Rng::new(seed_q ^ 0x5555);
    let mut q = Q { tr: tri, wrap: false };
    queries(&mut q, &mut r2, idx, &doc.text, &ones, &ls, false, nodes_ok, doc.text.len() <= 120);
}

fn json_trace(trb: &mut Trace, trj: &mut Trace, tri: &mut Trace, r: &mut Rng, docs: usize, large: usize) {
    const FAMS: [&str; 8] = ["small", "medium", "deep", "escapes", "whitespace", "dupkeys", "empties", "longstr"];
    for i in 0..docs {
        let fam = if i == docs - 1 && large > 0 { "large" } else { FAMS[i % FAMS.len()] };
        let Some(mut doc) = gen_doc(r, fam, large) else { continue };
        if i % 3 == 1 {
            // text length an exact multiple of 64 (trailing whitespace keeps the document and its
            // spans): the last IB word is then completely used -- a boundary for anything that
            // masks "bits past the length" when an index is rebuilt from parts
            while doc.text.len() % 64 != 0 {
                doc.text.push(b' ');
            }
        }
        let idx = JsonIndex::build(&doc.text);
        let seed_q = r.next_u64();
        json_group(trj, tri, &doc, i, "original", &idx, seed_q);
        // serialize both vectors, copy the bytes into fresh 8-aligned buffers
        let ib_bytes: Vec<u8> = words_to_bytes(idx.ib()).to_vec();
        let bp_bytes: Vec<u8> = words_to_bytes(idx.bp().words()).to_vec();
        let (il, bl) = (idx.ib_len(), idx.bp().len());
        let (ia, ba) = (Aligned::of(&ib_bytes, 0), Aligned::of(&bp_bytes, 0));
        // a) borrowed words straight out of the byte buffers (the mmap use case)
        if let Ok((iw, bw)) = guarded(|| (bytes_to_words(ia.bytes()), bytes_to_words(ba.bytes()))) {
            match guarded(|| (JsonIndex::<&[u64]>::from_parts(iw, il, bw, bl), BalancedParens::from_words(bw, bl))) {
                Ok((re, bpr)) => {
                    json_group(trj, tri, &doc, i, "rebuilt-borrowed", &re, seed_q);
                    let (n, eq) = bp_same(idx.bp(), &bpr, r);
                    trb.emit(json!({"e":"same","kind":"bp-from_words","n":n,"r":eq}));
                }
                Err(_) => trb.emit(json!({"e":"same","kind":"rebuild-panicked-borrowed","n":1,"r":-2})),
            }
        }
        // b) owned words
        if let Ok((iw, bw)) = guarded(|| (bytes_to_words_vec(ia.bytes()), bytes_to_words_vec(ba.bytes()))) {
            match guarded(|| (JsonIndex::from_parts(iw.clone(), il, bw.clone(), bl), BalancedParens::new(bw.clone(), bl))) {
                Ok((re, bpr)) => {
                    json_group(trj, tri, &doc, i, "rebuilt-owned", &re, seed_q);
                    let (n, eq) = bp_same(idx.bp(), &bpr, r);
                    trb.emit(json!({"e":"same","kind":"bp-new","n":n,"r":eq}));
                }
                Err(_) => trb.emit(json!({"e":"same","kind":"rebuild-panicked-owned","n":1,"r":-2})),
            }
        }
        // c) through SemiIndex::from_bytes
        if i % 2 == 0 {
            match guarded(|| {
                let semi = SemiIndex::from_bytes(ia.bytes(), ba.bytes());
                JsonIndex::from_parts(semi.ib, il, semi.bp, bl)
            }) {
                Ok(re) => json_group(trj, tri, &doc, i, "rebuilt-semi", &re, seed_q),
                Err(_) => trb.emit(json!({"e":"same","kind":"rebuild-panicked-semi","n":1,"r":-2})),
            }
        }
    }
}

fn run(args: Args) {
    let mut r = Rng::new(args.seed());
    let prefix = args.pos[1].clone();
    let rounds = args.u64("rounds", 2) as usize;
    let docs = args.u64("docs", 16) as usize;
    let vectors = args.u64("vectors", 30) as usize;
    let large = args.u64("large", 0) as usize;
    let mut trb = Trace::create(&format!("{prefix}-binary.ndjson"));
    let mut trv = Trace::create(&format!("{prefix}-bitvec.ndjson"));
    let mut trj = Trace::create(&format!("{prefix}-jsondoc.ndjson"));
    let mut tri = Trace::create(&format!("{prefix}-ib.ndjson"));
    binary_trace(&mut trb, &mut r, rounds);
    bitvec_trace(&mut trv, &mut r, vectors);
    json_trace(&mut trb, &mut trj, &mut tri, &mut r, docs, large);
    let (a, b, c, d) = (trb.finish(), trv.finish(), trj.finish(), tri.finish());
    println!("{{\"binary_events\":{a},\"bitvec_events\":{b},\"jsondoc_events\":{c},\"ib_events\":{d}}}");
}

fn main() {
    let args = Args::parse();
    if args.pos.len() < 2 || args.pos[0] != "record" {
        die("usage: c31 record <out-prefix> seed=N");
    }
    silence_panics();
    std::thread::Builder::new()
        .stack_size(512 << 20)
        .spawn(move || run(args))
        .unwrap()
        .join()
        .unwrap_or_else(|_| die("worker panicked"));
}
