//! C02 — word-level kernels, public API only (see c02_common/mod.rs for the event format).
//! `c02h` is the same recorder with the crate-private paths of hook H1 added.
#[path = "c02_common/mod.rs"]
mod common;

fn main() {
    common::run(None)
}
