//! C23 — the library evaluator (`jq::eval`) and the generic evaluator used by the CLI
//! (`jq::eval_generic::eval_with_cursor`) agree on every program.
//!
//! usage: c23 record <out.ndjson> seed=N progs=N inputs=K opaque=M depth=D
//!        c23 one '<program>' '<input json>'          (debugging aid: prints both outcomes)
//!
//! Events (validated by spec/Trace_Jq.tla):
//!   {"e":"run","tier":"core"|"agree","prog":text,"ast":{..}|0,"in":value,"oe":outcome,"og":outcome,"r":n}
//!   outcome = {"out":[value..],"end":{"k":"ok|err|brk|halt|panic","v":value,"l":label,"c":code}}
//!   tier "core": `ast` is the JqCore AST and both outcomes must also equal Eval(ast, Norm(in));
//!   tier "agree": only oe = og is required.  r = number of outputs of the library evaluator.
#[path = "jq_common/mod.rs"]
mod common;
use common::*;
use verif_harness::*;

fn run_pair(t: &mut Trace, prog: &str, ast: Option<&Ast>, tpl: &str, input: &V, stats: &mut Stats) {
    let expr = match parse_prog(prog) {
        Ok(e) => e,
        Err(e) => {
            if ast.is_some() {
                stats.core_parse_fail += 1;
                if stats.core_parse_fail <= 5 {
                    eprintln!("core program does not parse: {prog}: {e}");
                }
            } else {
                stats.opaque_parse_fail += 1;
            }
            return;
        }
    };
    let text = input.text();
    if std::env::var("C23_ECHO").is_ok() {
        eprintln!("RUN {prog} <<< {text}");
    }
    let oe = run_full(&expr, text.as_bytes());
    let og = run_generic(&expr, text.as_bytes());
    let inv = input.enc();
    let mut tier = "agree";
    let mut astv = json!(0);
    if let Some(a) = ast {
        if let Some(av) = a.enc() {
            if all_nums_canonical(input) && !atom_collision(&[&inv, &av]) {
                tier = "core";
                astv = av;
            }
        }
    }
    if tier == "core" {
        stats.core += 1
    } else {
        stats.agree += 1
    }
    let k = oe["end"]["k"].as_str().unwrap().to_string();
    *stats.ends.entry(k).or_insert(0) += 1;
    let r = oe["out"].as_array().unwrap().len();
    // diagnosis aid for the known-finding signature: the two evaluators disagree ONLY because the
    // library evaluator sees repeated object keys that jq (and the generic evaluator) collapse
    let mut dupsens = 0; // the evaluators disagree ONLY because jq::eval sees repeated keys
    let mut sens_e = 0; // jq::eval's outcome changes when the repeated keys are collapsed first
    let mut sens_g = 0; // same for the generic evaluator (jq 1.7.1 collapses at parse time)
    if oe != og {
        stats.disagree += 1;
    }
    if input.has_dup_keys() {
        let c = input.collapsed().text();
        let oe2 = run_full(&expr, c.as_bytes());
        let og2 = run_generic(&expr, c.as_bytes());
        sens_e = (oe2 != oe) as i32;
        sens_g = (og2 != og) as i32;
        if oe != og && oe2 == og2 && og2 == og {
            dupsens = 1;
        }
    }
    let mut mo = std::collections::BTreeSet::new();
    if let Some(a) = ast {
        multi_arg_causes(a, &mut mo);
    }
    let mo: Vec<String> = mo.into_iter().collect();
    t.emit(json!({"e":"run","tier":tier,"prog":prog,"tpl":tpl,"mo":mo,"ast":astv,"in":inv,"oe":oe,"og":og,"r":r,"dupsens":dupsens,"sens_e":sens_e,"sens_g":sens_g,
                  "dup": if input.has_dup_keys() {1} else {0}}));
}

#[derive(Default)]
struct Stats {
    core: usize,
    agree: usize,
    core_parse_fail: usize,
    disagree: usize,
    opaque_parse_fail: usize,
    ends: std::collections::BTreeMap<String, usize>,
}

fn main() {
    let a = Args::parse();
    silence_panics();
    match a.pos.first().map(|s| s.as_str()) {
        Some("record") => {
            let out = a.pos.get(1).cloned().unwrap_or_else(|| die("missing output path"));
            let seed = a.seed();
            let progs = a.u64("progs", 300);
            let inputs = a.u64("inputs", 3);
            let opaque = a.u64("opaque", 300);
            let depth = a.u64("depth", 4) as u32;
            let mut t = Trace::create(&out);
            let mut g = Gen::new(seed);
            let mut stats = Stats::default();
            let mut ops = std::collections::BTreeSet::new();
            for _ in 0..progs {
                let (ast, sh) = g.core_program(depth);
                if ast.size() > 40 {
                    continue;
                }
                ast.ops(&mut ops);
                let text = ast.render();
                for j in 0..inputs {
                    // every third input carries duplicate keys / odd number spellings
                    g.odd_nums = j == 2 && g.r.chance(1, 3);
                    let v = g.input_for(sh, j >= 1);
                    g.odd_nums = false;
                    run_pair(&mut t, &text, Some(&ast), "", &v, &mut stats);
                }
            }
            g.odd_nums = true;
            g.big = false; // opaque templates contain range(@@), @@ * @@, limit(@@; ..): no huge magnitudes
            for _ in 0..opaque {
                let (text, tpl) = g.opaque_program_tpl();
                for _ in 0..inputs.min(2) {
                    let sh = *g.r.pick(&[Sh::Any, Sh::Arr, Sh::Obj, Sh::Str, Sh::Num]);
                    let v = g.input_for(sh, true);
                    run_pair(&mut t, &text, None, tpl, &v, &mut stats);
                }
            }
            // directed cross product (agreement tier): computed-bound slices E[S:T] with every
            // pairing of bound shapes -- no output, error, negative, null, several outputs,
            // document-sourced -- over array and (multi-byte) string subjects reached by navigation
            {
                let bounds = ["empty", "error", "1", "-1", "-3", "null", "(0,1)", ".lo", ".a", "(.lo|select(. > 5))", "(.hi|error)", "(.hi|tonumber)"];
                let subjects = [".xs", ".s", ".", ".xs[1:]", "(.xs,.s)"];
                let docs = [
                    r#"{"xs":[10,20,30,40],"s":"h\u00e9llo w\u00f6rld \u2713","lo":1,"hi":"3","a":-3}"#,
                    r#"{"xs":[],"s":"","lo":0,"hi":"x","a":-1}"#,
                    r#"{"xs":[[1],{"k":2},"z",null,5],"s":"\ud83d\ude00ab\u00e9","lo":2,"hi":"1","a":-2}"#,
                ];
                let mut k = 0usize;
                for subj in subjects.iter() {
                    for lo in bounds.iter() {
                        for hi in bounds.iter() {
                            k += 1;
                            let text = format!("{subj}[{lo}:{hi}]");
                            let doc = docs[k % docs.len()];
                            if let Some(v) = parse_v(doc) {
                                run_pair(&mut t, &text, None, "directed:slice", &v, &mut stats);
                            }
                        }
                    }
                }
            }
            let n = t.finish();
            println!(
                "\nSUMMARY {}",
                json!({"events": n, "core": stats.core, "agree_only": stats.agree, "core_parse_fail": stats.core_parse_fail,
                       "opaque_parse_fail": stats.opaque_parse_fail, "disagree": stats.disagree, "ends": stats.ends, "ops": ops.len(),
                       "ops_list": ops.into_iter().collect::<Vec<_>>()})
            );
        }
        Some("one") => {
            let prog = &a.pos[1];
            let input = parse_v(&a.pos[2]).unwrap_or_else(|| die("bad input json"));
            let expr = parse_prog(prog).unwrap_or_else(|e| die(&e));
            println!("expr: {expr:?}");
            println!("full:    {}", run_full(&expr, input.text().as_bytes()));
            println!("generic: {}", run_generic(&expr, input.text().as_bytes()));
        }
        _ => die("usage: c23 record <out> [k=v..] | one <prog> <json>"),
    }
}
