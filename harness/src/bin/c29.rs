//! C29 — yq-locate expressions evaluate to the located YAML node.
//!
//! usage: c29 record <out.ndjson> seed=N docs=N [sample=<dir> nsample=N]
//!
//! Events (validated by spec/Trace_Locate.tla), same shape as c28 with "fmt":"yaml":
//!   {"e":"build","fmt":"yaml","doc":text,"len":N,"cls":[],"tree":<array of documents, with spans>}
//!   {"e":"loc","off":o,"ln":l,"col":c,"expr":text,"found":1|0|-2,"rs":start,"re":end,
//!    "val":<expr by the generic evaluator, yq semantics, on the stream root>,
//!    "val2":<expr by jq::eval on the documents collected into a JSON array>,
//!    "ao":<at_offset(o)>,"ap":<at_position(l;c)>}
//!        -- one per QUALIFYING offset (inside a scalar or key token; the C29 statement does not
//!           speak about containers, byte ranges or at_position: those are logged, not asserted)
//!   {"e":"end","n":<number of loc events>,"all":1}
#[path = "locate_common/mod.rs"]
mod common;
use common::*;
use succinctly::yaml::{locate_offset_detailed, YamlIndex};
use verif_harness::*;

fn gen_docs(r: &mut Rng, i: u64) -> Vec<V> {
    let s = |x: &str| V::Str(x.to_string());
    match i {
        0 => vec![V::Obj(vec![("name".into(), s("Alice")), ("age".into(), V::Num(30)), ("active".into(), V::Bool(true))])],
        1 => vec![
            V::Obj(vec![("a".into(), V::Num(1))]),
            V::Obj(vec![("a".into(), V::Num(2)), ("b".into(), V::Arr(vec![s("x"), s("y")]))]),
            V::Arr(vec![V::Num(3), V::Obj(vec![("c".into(), V::Null)])]),
        ],
        2 => vec![V::Arr(vec![
            V::Obj(vec![("name".into(), s("x")), ("tags".into(), V::Arr(vec![s("p"), s("q")]))]),
            V::Obj(vec![("name".into(), s("y")), ("tags".into(), V::Arr(vec![]))]),
        ])],
        3 => vec![V::Obj(YAML_KEYS.iter().map(|k| (k.to_string(), V::Num(1))).collect())],
        4 => vec![V::Obj(YAML_KEYS.iter().rev().map(|k| (k.to_string(), V::Arr(vec![s(k)]))).collect())],
        5 => vec![V::Arr((0..70).map(V::Num).collect())],
        _ => {
            let small = r.chance(1, 3);
            gen_yaml_docs(r, small)
        }
    }
}

fn main() {
    let args = Args::parse();
    if args.pos.len() < 2 || args.pos[0] != "record" {
        die("usage: c29 record <out> seed=N docs=N [sample=dir nsample=N]");
    }
    silence_panics();
    let mut r = Rng::new(args.seed());
    let ndocs = args.u64("docs", 100);
    let sample_dir = args.str("sample", "");
    let nsample = args.u64("nsample", 12);
    let mut tr = Trace::create(&args.pos[1]);
    let mut samples: Vec<Value> = vec![];
    let (mut dropped, mut nloc, mut nother, mut other_none) = (0u64, 0u64, 0u64, 0u64);
    let mut exprs = std::collections::BTreeSet::new();
    let (mut multi, mut flow_docs) = (0u64, 0u64);

    for i in 0..ndocs {
        let docs = gen_docs(&mut r, i);
        let (text, tree) = render_yaml(&mut r, &docs);
        if let Err(e) = self_check_yaml(&text, &tree) {
            if args.u64("verbose", 0) > 0 {
                eprintln!("self-check dropped a case: {e}:\n{}", String::from_utf8_lossy(&text));
            }
            dropped += 1;
            continue;
        }
        if docs.len() > 1 {
            multi += 1;
        }
        if text.contains(&b'[') || text.contains(&b'{') {
            flow_docs += 1;
        }
        let doc = String::from_utf8(text.clone()).expect("generated YAML is UTF-8");
        let build = json!({"e":"build","fmt":"yaml","doc":doc,"len":text.len(),"cls":[],"tree":tree.enc()});
        tr.emit(build.clone());
        let mut toks = vec![];
        tokens(&tree, &mut toks);
        let q = qualifying(&toks, false);
        let starts = line_starts(&text);
        let index = match guarded(|| YamlIndex::build(&text)) {
            Ok(Ok(ix)) => Ok(ix),
            Ok(Err(e)) => Err(format!("{e}")),
            Err(p) => Err(p),
        };
        let mut n = 0u64;
        let mut sample_offs: Vec<Value> = vec![];
        let mut qi = 0usize;
        for off in 0..text.len() {
            let is_q = qi < q.len() && q[qi].0 == off;
            let located = match &index {
                Ok(ix) => guarded(|| locate_offset_detailed(ix, &text, off)),
                Err(e) => Err(e.clone()),
            };
            if !is_q {
                nother += 1;
                if !matches!(located, Ok(Some(_))) {
                    other_none += 1;
                }
                continue;
            }
            let tok = &toks[q[qi].1];
            qi += 1;
            let (ln, col) = line_col(&starts, off);
            let (found, rs, re, expr) = match &located {
                Ok(Some(l)) => (1, l.byte_range.0 as i64, l.byte_range.1 as i64, l.expression.clone()),
                Ok(None) => (0, -1, -1, String::new()),
                Err(_) => (-2, -1, -1, String::new()),
            };
            let (val, val2) = if found == 1 {
                (eval_generic_yaml(&expr, &text), eval_full_yaml_as_array(&expr, &text))
            } else {
                (err_val("not located"), err_val("not located"))
            };
            let ao = eval_generic_yaml(&format!("at_offset({off})"), &text);
            let ap = eval_generic_yaml(&format!("at_position({ln}; {col})"), &text);
            if exprs.len() < 100000 {
                exprs.insert(expr.clone());
            }
            tr.emit(json!({"e":"loc","off":off,"ln":ln,"col":col,"expr":expr,"found":found,"rs":rs,"re":re,
                           "val":val,"val2":val2,"ao":ao,"ap":ap}));
            n += 1;
            if (off as i64 == tok.s || off as i64 == tok.e - 1) && r.chance(1, 3) && sample_offs.len() < 6 {
                sample_offs.push(json!({"off":off,"ln":ln,"col":col}));
            }
        }
        nloc += n;
        tr.emit(json!({"e":"end","n":n,"all":1}));
        if !sample_dir.is_empty() && (samples.len() as u64) < nsample && !sample_offs.is_empty() && (i < 6 || r.chance(1, 3)) {
            let path = format!("{sample_dir}/doc-{i}.yaml");
            std::fs::write(&path, &text).unwrap_or_else(|e| die(&format!("write {path}: {e}")));
            samples.push(json!({"file":path,"build":build,"offs":sample_offs}));
        }
    }
    if !sample_dir.is_empty() {
        let mut st = Trace::create(&format!("{sample_dir}/samples.ndjson"));
        for s in samples {
            st.emit(s);
        }
        st.finish();
    }
    let n = tr.finish();
    println!(
        "{}",
        json!({"events":n,"loc":nloc,"dropped":dropped,"other_offsets":nother,"other_not_located":other_none,
               "distinct_exprs":exprs.len(),"multi_doc_streams":multi,"streams_with_flow":flow_docs})
    );
}
