//! C25 — jq value identities hold for every value.
//!
//! usage: c25 record <out.ndjson> seed=N values=N [cli=<path of succinctly> clin=K]
//!
//! Every event is one (law, value, program) run through the generic evaluator (`via`="generic")
//! or the CLI (`via`="cli"); validated by spec/Trace_JqId.tla:
//!   {"e":"id","law":L,"via":..,"prog":text,"v":value,"idv":value|0,"p":[key..],"nv":value,"o":outcome,"r":n}
//!   idv = the single output of `.` through the same route (what "reproduces its input" means for
//!         number spellings the route canonicalises), 0 when `.` did not yield exactly one value.
//! laws: ident tojson entries stream stream2 b64 uri paths getpath setget sort unique assign update setpath
#[path = "jq_common/mod.rs"]
mod common;
use common::*;
use verif_harness::*;

fn path_text(p: &[V]) -> String {
    format!("[{}]", p.iter().map(|k| k.text()).collect::<Vec<_>>().join(", "))
}
fn path_expr(p: &[V]) -> String {
    if p.is_empty() {
        return ".".into();
    }
    p.iter().map(|k| format!(".[{}]", k.text())).collect::<Vec<_>>().join("").replacen(".[", ".[", 1).replace("].[", "][")
}
fn paths_of(v: &V, pre: &mut Vec<V>, out: &mut Vec<Vec<V>>) {
    match v {
        V::Arr(a) => {
            for (i, x) in a.iter().enumerate() {
                pre.push(V::int(i as i64));
                out.push(pre.clone());
                paths_of(x, pre, out);
                pre.pop();
            }
        }
        V::Obj(kv) => {
            for (k, x) in kv {
                pre.push(V::s(k));
                out.push(pre.clone());
                paths_of(x, pre, out);
                pre.pop();
            }
        }
        _ => {}
    }
}
fn strings_of(v: &V, out: &mut Vec<String>) {
    match v {
        V::Str(s) => out.push(s.clone()),
        V::Arr(a) => a.iter().for_each(|x| strings_of(x, out)),
        V::Obj(kv) => kv.iter().for_each(|(k, x)| {
            out.push(k.clone());
            strings_of(x, out)
        }),
        _ => {}
    }
}

struct Ctx {
    t: Trace,
    cli: Option<String>,
    laws: std::collections::BTreeMap<String, usize>,
}

impl Ctx {
    fn run(&mut self, via_cli: bool, prog: &str, text: &str) -> Option<Value> {
        if via_cli {
            Some(run_cli(self.cli.as_ref().unwrap(), prog, text))
        } else {
            match parse_prog(prog) {
                Ok(e) => Some(run_generic(&e, text.as_bytes())),
                Err(e) => {
                    eprintln!("program does not parse: {prog}: {e}");
                    None
                }
            }
        }
    }
    fn law(&mut self, via_cli: bool, law: &str, prog: &str, v: &V, idv: &Value, p: &[V], nv: &V) {
        let text = v.text();
        let Some(o) = self.run(via_cli, prog, &text) else { return };
        let r = o["out"].as_array().unwrap().len();
        *self.laws.entry(law.to_string()).or_insert(0) += 1;
        let idok = if idv.is_object() { 1 } else { 0 };
        let idv = if idok == 1 { idv.clone() } else { json!({"t":"null"}) };
        self.t.emit(json!({"e":"id","law":law,"via": if via_cli {"cli"} else {"generic"},"prog":prog,"v":v.enc(),"idv":idv,"idok":idok,
            "p": p.iter().map(|k| k.enc()).collect::<Vec<_>>(), "nv": nv.enc(), "o": o, "r": r}));
    }
    fn all_laws(&mut self, g: &mut Gen, v: &V, via_cli: bool) {
        let text = v.text();
        let idv = match self.run(via_cli, ".", &text) {
            Some(o) if o["out"].as_array().unwrap().len() == 1 && o["end"]["k"] == "ok" => o["out"][0].clone(),
            _ => json!(0),
        };
        let none: [V; 0] = [];
        self.law(via_cli, "ident", ".", v, &idv, &none, &V::Null);
        self.law(via_cli, "tojson", "tojson | fromjson", v, &idv, &none, &V::Null);
        self.law(via_cli, "stream", "[tostream] | fromstream(.[])", v, &idv, &none, &V::Null);
        self.law(via_cli, "stream2", "fromstream(tostream)", v, &idv, &none, &V::Null);
        self.law(via_cli, "paths", "[paths]", v, &idv, &none, &V::Null);
        if let V::Obj(_) = v {
            self.law(via_cli, "entries", "to_entries | from_entries", v, &idv, &none, &V::Null);
            self.law(via_cli, "entries", "with_entries(.)", v, &idv, &none, &V::Null);
        }
        if let V::Arr(_) = v {
            self.law(via_cli, "sort", "sort", v, &idv, &none, &V::Null);
            self.law(via_cli, "unique", "unique", v, &idv, &none, &V::Null);
            self.law(via_cli, "sort", "sort_by(.)", v, &idv, &none, &V::Null);
        }
        let mut ss = vec![];
        strings_of(v, &mut ss);
        ss.sort();
        ss.dedup();
        for s in ss.iter().take(if via_cli { 1 } else { 4 }) {
            let sv = V::s(s);
            let sid = sv.enc();
            self.law(via_cli, "b64", "@base64 | @base64d", &sv, &sid, &none, &V::Null);
            self.law(via_cli, "uri", "@uri | @urid", &sv, &sid, &none, &V::Null);
            self.law(via_cli, "tojson", "tojson | fromjson", &sv, &sid, &none, &V::Null);
        }
        let mut ps = vec![];
        paths_of(v, &mut vec![], &mut ps);
        let take = if via_cli { 2 } else { 6 };
        let n = ps.len();
        for j in 0..n.min(take) {
            let p = ps[(j * 7 + g.r.below(n as u64) as usize) % n].clone();
            let nv = g.value(1, Sh::Any, false);
            self.law(via_cli, "getpath", &format!("getpath({})", path_text(&p)), v, &idv, &p, &V::Null);
            self.law(via_cli, "getpath", &path_expr(&p), v, &idv, &p, &V::Null);
            self.law(via_cli, "setget", &format!("setpath({0}; getpath({0}))", path_text(&p)), v, &idv, &p, &V::Null);
            self.law(via_cli, "setget", &format!("{0} = {0}", path_expr(&p)), v, &idv, &p, &V::Null);
            self.law(via_cli, "assign", &format!("{} = {}", path_expr(&p), nv.text_spaced()), v, &idv, &p, &nv);
            self.law(via_cli, "assign", &format!("{} |= {}", path_expr(&p), nv.text_spaced()), v, &idv, &p, &nv);
            self.law(via_cli, "assign", &format!("setpath({}; {})", path_text(&p), nv.text_spaced()), v, &idv, &p, &nv);
            // a fresh key beside an existing member
            if let Some(V::Str(_)) = p.last() {
                let mut q = p.clone();
                q.pop();
                q.push(V::s("zz"));
                self.law(via_cli, "assign", &format!("{} = {}", path_expr(&q), nv.text_spaced()), v, &idv, &q, &nv);
            }
        }
    }
}

fn main() {
    let a = Args::parse();
    silence_panics();
    if a.pos.first().map(|s| s.as_str()) != Some("record") {
        die("usage: c25 record <out> seed=N values=N [cli=path clin=K]");
    }
    let out = a.pos.get(1).cloned().unwrap_or_else(|| die("missing output path"));
    let mut g = Gen::new(a.seed());
    let values = a.u64("values", 200);
    let clin = a.u64("clin", 0);
    let cli = a.kv.get("cli").cloned();
    let mut c = Ctx { t: Trace::create(&out), cli, laws: Default::default() };
    let mut shapes = 0usize;
    for i in 0..values {
        // nested, duplicate-free, all scalar kinds, non-ASCII strings; every 4th value carries
        // agreement-only number spellings (extreme / exponent forms)
        g.odd_nums = i % 4 == 3;
        let sh = *g.r.pick(&[Sh::Arr, Sh::Obj, Sh::Arr, Sh::Obj, Sh::Any]);
        let d = g.r.range(1, 3) as u32;
        let v = if i % 9 == 4 { g.obj_order_array() } else { g.value(d, sh, false) };
        g.odd_nums = false;
        shapes += v.nodes();
        c.all_laws(&mut g, &v, false);
        if c.cli.is_some() && i < clin {
            c.all_laws(&mut g, &v, true);
        }
    }
    // directed string values: one character from every UTF-8 lead-byte class (incl. the last
    // 3-byte lead 0xEF: U+F000..U+FFFF) at the end of the string, before another non-ASCII
    // character and before a character that needs a JSON escape
    {
        let cps: [u32; 14] = [0x7F, 0x80, 0x7FF, 0x800, 0xD7FF, 0xE000, 0xEFFF, 0xF000, 0xF8FF, 0xFEFF, 0xFF21, 0xFFFD, 0xFFFF, 0x10FFFF];
        let mut vals: Vec<V> = vec![];
        for &cp in cps.iter() {
            let ch = char::from_u32(cp).unwrap();
            vals.push(V::s(&format!("{ch}")));
            vals.push(V::s(&format!("a{ch}")));
            vals.push(V::s(&format!("{ch}\u{e9}")));
            vals.push(V::s(&format!("{ch}\"x")));
            vals.push(V::s(&format!("{ch}\n{ch}")));
        }
        let arr: V = vals.clone().into();
        for v in vals.iter().chain(std::iter::once(&arr)) {
            c.all_laws(&mut g, v, false);
        }
    }
    let laws = c.laws.clone();
    let n = c.t.finish();
    println!("\nSUMMARY {}", json!({"events": n, "values": values, "value_nodes": shapes, "laws": laws}));
}
