//! C14 / C18 — YAML loading reproduces the value of every generated presentation; the strict
//! validator accepts every generated document and reports consistent positions.
//!
//! usage:
//!   c14 replay <behaviours.ndjson> <mismatches.ndjson> [validate=1] [samples=N]
//!        each input line is one REPLAY record of spec/Gen_YamlPresentation.tla; the record is
//!        rendered to bytes, loaded with the real YamlIndex::build, walked and compared with
//!        the value the spec's denotation predicts (YamlValue walk + to_json); with validate=1
//!        yaml::validate::validate must also accept it (C18).  Mismatches are written one per
//!        line; the first `samples` distinct documents are written to <mismatches>.samples
//!        for the CLI stage; a JSON summary goes to stdout.
//!   c14 schema <behaviours.ndjson> <mismatches.ndjson>
//!        REPLAY records of spec/Gen_YamlCoreSchema.tla against the public resolve_plain.
//!   c14 render <behaviours.ndjson>        (development: print the rendered documents)
//!   c14 vrecord <behaviours.ndjson> <trace.ndjson> seed=N n=N budget_ms=N
//!        C18 trace (impl -> spec): validate() on random bytes, indicator soups and mutated
//!        valid documents; one event per call {bytes, r, off, line, col, ms}.
#[path = "yaml_common/mod.rs"]
mod common;
use common::*;
use std::collections::HashSet;
use std::io::{BufRead, Write};
use succinctly::yaml::validate::validate;
use succinctly::yaml::{resolve_plain, ResolvedScalar};
use verif_harness::*;

fn lines_of(path: &str) -> impl Iterator<Item = Value> {
    let f = std::fs::File::open(path).unwrap_or_else(|e| die(&format!("open {path}: {e}")));
    std::io::BufReader::new(f)
        .lines()
        .map(|l| l.unwrap())
        .filter(|l| !l.trim().is_empty())
        .map(|l| serde_json::from_str::<Value>(&l).unwrap_or_else(|e| die(&format!("bad json: {e}: {l}"))))
}

/// A coarse, stable description of which constructs a stream uses (for signatures and
/// for counting distinct non-trivial cases).
fn features(s: &Stream) -> Vec<String> {
    let mut f: HashSet<String> = HashSet::new();
    for d in &s.docs {
        for n in d.nodes.iter().skip(1) {
            f.insert(format!("{}:{}", n.k, n.st));
            if n.an == 1 {
                f.insert("anchor".into());
            }
            if n.cm > 0 {
                f.insert("comment".into());
            }
            if n.pre > 0 {
                f.insert(format!("pre{}", n.pre));
            }
        }
        if d.ds {
            f.insert("ds".into());
        }
        if d.de {
            f.insert("de".into());
        }
        if d.zi {
            f.insert("zi".into());
        }
        if d.cmp {
            f.insert("cmp".into());
        }
        if d.fsp {
            f.insert("fsp".into());
        }
    }
    if s.docs.len() > 1 {
        f.insert("multidoc".into());
    }
    f.insert(format!("br:{}", s.br));
    let mut v: Vec<String> = f.into_iter().collect();
    v.sort();
    v
}

/// Known-defect trigger classes (mirrors AfterEmptyTop / CompactDedent / the K1 guard of
/// YamlPresentation.tla); used only to give a failing case a specific signature.
fn classes(s: &Stream) -> Vec<&'static str> {
    let mut out = vec![];
    for d in &s.docs {
        let ns = &d.nodes;
        let root = &ns[1];
        if root.k == "str" && (root.st == "lit" || root.st == "fold") && (root.cm > 0 || root.s.contains(": ")) && !out.contains(&"K1") {
            out.push("K1");
        }
        if root.k == "map" && root.st == "block" {
            for w in root.kids.chunks(2).collect::<Vec<_>>().windows(2) {
                let v = &ns[w[0][1]];
                let k = &ns[w[1][0]];
                if v.k == "str" && v.st == "plain" && v.s.is_empty() && v.an == 0 && (k.st == "single" || k.st == "double")
                    && !out.contains(&"K2") {
                    out.push("K2");
                }
            }
        }
        for c in 1..ns.len() {
            let n = &ns[c];
            if n.k == "map" && n.st == "block" && n.kids.len() >= 4 && ns[n.kids[0]].an == 1 {
                let vals: Vec<usize> = n.kids.chunks(2).map(|kv| kv[1]).collect();
                for (j, &v) in vals.iter().enumerate() {
                    if j + 1 < vals.len() && (ns[v].k == "map" || ns[v].k == "seq") && ns[v].st == "block" && !out.contains(&"V2") {
                        out.push("V2");
                    }
                }
            }
        }
        if d.cmp {
            for c in 1..ns.len() {
                let n = &ns[c];
                if (n.k == "map" || n.k == "seq") && n.st == "block" && n.r == "item" && n.an == 0 && n.cm == 0 {
                    let vals: Vec<usize> = if n.k == "seq" { n.kids.clone() } else { n.kids.chunks(2).map(|kv| kv[1]).collect() };
                    for (j, &v) in vals.iter().enumerate() {
                        if j + 1 < vals.len() && (ns[v].k == "map" || ns[v].k == "seq") && ns[v].st == "block" && !out.contains(&"V1") {
                            out.push("V1");
                        }
                    }
                    for (j, &v) in vals.iter().enumerate() {
                        if j + 1 < vals.len() && (ns[v].st == "lit" || ns[v].st == "fold") && !out.contains(&"V3") {
                            out.push("V3");
                        }
                    }
                }
            }
        }
    }
    out
}

fn class_for(stage: &str, s: &Stream) -> String {
    let cl = classes(s);
    let want: &[&str] = if stage.starts_with("validate") { &["V1", "V2", "V3"] } else { &["K1", "K2"] };
    for w in want {
        if cl.contains(w) {
            return w.to_string();
        }
    }
    String::new()
}

fn replay(args: &Args) {
    let do_validate = args.u64("validate", 0) == 1;
    let nsamples = args.u64("samples", 0) as usize;
    let mut out = Trace::create(&args.pos[2]);
    let mut samples = Trace::create(&format!("{}.samples", args.pos[2]));
    let mut seen: HashSet<Vec<u8>> = HashSet::new();
    let (mut n, mut distinct, mut bad, mut nodes_max, mut vbad) = (0u64, 0u64, 0u64, 0usize, 0u64);
    let mut feat_classes: HashSet<String> = HashSet::new();
    let mut nsamp = 0usize;
    // streams that loaded correctly on their own, kept for the amplification stage
    let mut pool: Vec<(u64, Stream, usize)> = vec![];
    for rec in lines_of(&args.pos[1]) {
        n += 1;
        let s = stream_of(&rec);
        let text = render(&s);
        if !seen.insert(text.clone()) {
            continue;
        }
        distinct += 1;
        let nn: usize = s.docs.iter().map(|d| d.nodes.len() - 1).sum();
        nodes_max = nodes_max.max(nn);
        let feats = features(&s);
        feat_classes.insert(feats.join(","));
        let ytext = String::from_utf8_lossy(&text).into_owned();
        let loaded = check_load(&text, &s);
        if loaded.is_none() && classes(&s).is_empty() && pool.len() < 60000 {
            let ncoll: usize = s.docs.iter().map(|d| d.nodes.iter().filter(|n| n.k == "map" || n.k == "seq").count()).sum();
            pool.push((n, s.clone(), ncoll));
        }
        if let Some((stage, detail)) = loaded {
            bad += 1;
            out.emit(json!({"id": n, "stage": stage, "class": class_for(&stage, &s), "yaml": ytext, "detail": detail, "features": feats, "rec": rec}));
        }
        if do_validate {
            match guarded(|| validate(&text)) {
                Ok(Ok(())) => {}
                Ok(Err(e)) => {
                    vbad += 1;
                    out.emit(json!({"id": n, "stage": "validate", "class": class_for("validate", &s), "yaml": ytext, "features": feats,
                        "detail": format!("validate rejected a well-formed document: {} at offset {} line {} column {}",
                                          e.kind, e.position.offset, e.position.line, e.position.column),
                        "kind": format!("{:?}", e.kind).split([' ', '{', '(']).next().unwrap_or("").to_string(),
                        "rec": rec}));
                }
                Err(p) => {
                    vbad += 1;
                    out.emit(json!({"id": n, "stage": "validate-panic", "class": "", "yaml": ytext, "features": feats,
                        "detail": format!("validate panicked: {p}"), "rec": rec}));
                }
            }
        }
        // spread the CLI samples over the whole run
        if nsamp < nsamples && (distinct % 97 == 1 || nn > 12) {
            nsamp += 1;
            let want: Vec<Value> = s.docs.iter().map(|d| exp_json(&d.val)).collect();
            samples.emit(json!({"yaml": ytext, "json": want, "class": class_for("value", &s), "vclass": class_for("validate", &s)}));
        }
    }
    // ------------------------------------------------------------------------------------
    // amplification: concatenate already-checked behaviours of one break kind into one stream
    // (`---` before every appended document) so that the stream holds 63..300+ collections,
    // including the multiples of 64 +- 1; expected value = concatenation of the expected
    // documents.  Index tables that are sized per 64 collections / nodes are only reached here.
    // ------------------------------------------------------------------------------------
    let reps = args.u64("amplify", 1);
    let mut r = Rng::new(args.seed());
    let (mut amp_n, mut amp_max, mut amp_bad) = (0u64, 0usize, 0u64);
    const TARGETS: [usize; 16] = [62, 63, 64, 65, 66, 100, 126, 127, 128, 129, 130, 191, 192, 193, 257, 320];
    for br in ["LF", "CRLF", "CR"] {
        let idx: Vec<usize> = (0..pool.len()).filter(|&i| pool[i].1.br == br).collect();
        let ones: Vec<usize> = idx.iter().copied().filter(|&i| pool[i].2 == 1).collect();
        if idx.len() < 50 || ones.is_empty() {
            continue;
        }
        for _ in 0..reps {
            for &target in &TARGETS {
                // the virtual root sequence counts as one collection
                let mut total = 1usize;
                let mut parts: Vec<usize> = vec![];
                let mut tries = 0;
                while total < target && tries < 20000 {
                    tries += 1;
                    let i = if target - total <= 2 { *r.pick(&ones) } else { *r.pick(&idx) };
                    let c = pool[i].2;
                    if c == 0 && r.below(4) != 0 {
                        continue;
                    }
                    if total + c <= target {
                        total += c;
                        parts.push(i);
                    }
                }
                if total != target {
                    continue;
                }
                let mut docs = vec![];
                for (k, &i) in parts.iter().enumerate() {
                    for d in &pool[i].1.docs {
                        let mut d = d.clone();
                        if k > 0 {
                            d.ds = true;
                        }
                        docs.push(d);
                    }
                }
                let big = Stream { docs, br: br.to_string() };
                let text = render(&big);
                amp_n += 1;
                amp_max = amp_max.max(total);
                if do_validate {
                    // C18: the strict validator must accept the amplified stream as well
                    let verdict: Option<String> = match guarded(|| validate(&text)) {
                        Ok(Ok(())) => None,
                        Ok(Err(e)) => Some(format!("{} at offset {} line {} column {}", e.kind, e.position.offset, e.position.line, e.position.column)),
                        Err(p) => Some(format!("panic: {p}")),
                    };
                    if let Some(v) = verdict {
                        vbad += 1;
                        let ids: Vec<u64> = parts.iter().map(|&i| pool[i].0).collect();
                        out.emit(json!({"id": 0, "stage": "validate", "class": "", "yaml": String::from_utf8_lossy(&text), "features": ["amplified"],
                            "detail": format!("validate rejected an amplified stream of {} well-formed behaviours ({} collections): {}", parts.len(), total, v),
                            "rec": {"amplified_behaviour_ids": ids, "br": br, "collections": total}}));
                    }
                }
                if let Some((stage, detail)) = check_load(&text, &big) {
                    amp_bad += 1;
                    let ids: Vec<u64> = parts.iter().map(|&i| pool[i].0).collect();
                    let ytext = String::from_utf8_lossy(&text).into_owned();
                    out.emit(json!({"id": 0, "stage": stage, "class": "", "yaml": ytext, "features": ["amplified"],
                        "detail": format!("amplified stream of {} behaviours, {} collections incl. the root: {}", parts.len(), total, detail),
                        "rec": {"amplified_behaviour_ids": ids, "br": br, "collections": total}}));
                }
            }
        }
    }
    let m = out.finish();
    samples.finish();
    println!(
        "{}",
        json!({"amplified_streams": amp_n, "amplified_max_collections": amp_max, "amplified_mismatches": amp_bad, "behaviours": n, "distinct_documents": distinct, "load_mismatches": bad, "validate_rejections": vbad,
               "mismatch_lines": m, "max_nodes": nodes_max, "feature_classes": feat_classes.len(), "cli_samples": nsamp})
    );
}

fn schema(args: &Args) {
    let mut out = Trace::create(&args.pos[2]);
    let (mut n, mut nonstr) = (0u64, 0u64);
    for rec in lines_of(&args.pos[1]) {
        n += 1;
        let s = tok_to_string(&rec["s"]);
        let ty = rec["ty"].as_str().unwrap();
        let iv = rec["iv"].as_i64().unwrap();
        let got = guarded(|| resolve_plain(&s));
        let (gty, giv) = match got {
            Err(_) => ("panic", 0),
            Ok(ResolvedScalar::Null) => ("null", 0),
            Ok(ResolvedScalar::Bool(b)) => ("bool", b as i64),
            Ok(ResolvedScalar::Int(i)) => ("int", i),
            Ok(ResolvedScalar::Float(_)) => ("float", 0),
            Ok(ResolvedScalar::Str) => ("str", 0),
        };
        if ty != "str" {
            nonstr += 1;
        }
        if gty != ty || giv != iv {
            out.emit(json!({"stage": "schema", "s": s, "want": {"ty": ty, "iv": iv}, "got": {"ty": gty, "iv": giv}}));
        }
    }
    let m = out.finish();
    println!("{}", json!({"strings": n, "non_string_resolutions": nonstr, "mismatch_lines": m}));
}

fn render_cmd(args: &Args) {
    let so = std::io::stdout();
    let mut so = so.lock();
    for rec in lines_of(&args.pos[1]) {
        let s = stream_of(&rec);
        let text = render(&s);
        let want: Vec<Value> = s.docs.iter().map(|d| exp_json(&d.val)).collect();
        writeln!(so, "{}", json!({"yaml": String::from_utf8_lossy(&text), "json": want})).unwrap();
    }
}

// ---------------------------------------------------------------------------------------
// C18 trace: validate() on arbitrary bytes
// ---------------------------------------------------------------------------------------

const INDICATORS: &[&[u8]] = &[
    b"-", b":", b"?", b"[", b"]", b"{", b"}", b",", b"&", b"*", b"!", b"|", b">", b"'", b"\"", b"%", b"#", b"\n", b"\r",
    b"\r\n", b" ", b"\t", b"a", b"- ", b": ", b"--- ", b"---", b"...", b"\\", b"&a ", b"*a", b"|+", b">-", b"  ",
    b"\xc3\xa9", b"\xff", b"0", b"k: v", b"\"x\"", b"'y'", b"# c", b"%YAML 1.2", b"!!str ", b"<<", b"? ",
];

fn gen_case(r: &mut Rng, docs: &[Vec<u8>]) -> Vec<u8> {
    match r.below(10) {
        0 => {
            // random bytes
            let n = r.below(40) as usize;
            (0..n).map(|_| r.below(256) as u8).collect()
        }
        1 | 2 | 3 => {
            // indicator soup
            let n = r.range(1, 14);
            let mut v = vec![];
            for _ in 0..n {
                let t: &[u8] = *r.pick(INDICATORS); v.extend_from_slice(t);
            }
            v
        }
        4 if !docs.is_empty() => r.pick(docs).clone(),
        _ if !docs.is_empty() => {
            // mutated valid document
            let mut v = r.pick(docs).clone();
            for _ in 0..r.range(1, 3) {
                if v.is_empty() {
                    break;
                }
                let p = r.below(v.len() as u64) as usize;
                match r.below(7) {
                    0 => {
                        v.truncate(p);
                    }
                    1 => {
                        v.remove(p);
                    }
                    2 => {
                        let t: &[u8] = *r.pick(INDICATORS);
                        let mut w = v[..p].to_vec();
                        w.extend_from_slice(t);
                        w.extend_from_slice(&v[p..]);
                        v = w;
                    }
                    3 => {
                        v[p] = r.below(256) as u8;
                    }
                    4 => {
                        // flip a break kind
                        if let Some(q) = v.iter().position(|&b| b == b'\n') {
                            v[q] = b'\r';
                        }
                    }
                    5 => {
                        // duplicate a slice
                        let q = (p + r.below(8) as usize).min(v.len());
                        let sl = v[p..q].to_vec();
                        let mut w = v[..q].to_vec();
                        w.extend_from_slice(&sl);
                        w.extend_from_slice(&v[q..]);
                        v = w;
                    }
                    _ => {
                        let q = r.below(v.len() as u64) as usize;
                        v.swap(p, q);
                    }
                }
            }
            v
        }
        _ => {
            let n = r.range(1, 8);
            let mut v = vec![];
            for _ in 0..n {
                let t: &[u8] = *r.pick(INDICATORS); v.extend_from_slice(t);
            }
            v
        }
    }
}

fn vrecord(args: &Args) {
    let mut r = Rng::new(args.seed());
    let n = args.u64("n", 2000);
    let budget_ms = args.u64("budget_ms", 2000) as u128;
    let mut docs: Vec<Vec<u8>> = vec![];
    for (i, rec) in lines_of(&args.pos[1]).enumerate() {
        if i % 7 == 0 || i < 50 {
            docs.push(render(&stream_of(&rec)));
        }
        if docs.len() >= 3000 {
            break;
        }
    }
    let mut tr = Trace::create(&args.pos[2]);
    let (mut ok, mut err, mut slow, mut panics) = (0u64, 0u64, 0u64, 0u64);
    let mut kinds: HashSet<String> = HashSet::new();
    for _ in 0..n {
        let mut v = gen_case(&mut r, &docs);
        v.truncate(160);
        let t0 = std::time::Instant::now();
        let res = guarded(|| validate(&v));
        let ms = t0.elapsed().as_millis();
        if ms > budget_ms {
            slow += 1;
        }
        let bytes: Vec<u64> = v.iter().map(|&b| b as u64).collect();
        match res {
            Ok(Ok(())) => {
                ok += 1;
                tr.emit(json!({"e": "validate", "bytes": bytes, "r": 0, "off": 0, "line": 0, "col": 0}));
            }
            Ok(Err(e)) => {
                err += 1;
                kinds.insert(format!("{:?}", e.kind).split([' ', '{', '(']).next().unwrap_or("").to_string());
                tr.emit(json!({"e": "validate", "bytes": bytes, "r": 1, "off": clamp_i(e.position.offset as u64),
                               "line": clamp_i(e.position.line as u64), "col": clamp_i(e.position.column as u64)}));
            }
            Err(_) => {
                panics += 1;
                tr.emit(json!({"e": "validate", "bytes": bytes, "r": -2, "off": 0, "line": 0, "col": 0}));
            }
        }
    }
    tr.finish();
    let mut k: Vec<String> = kinds.into_iter().collect();
    k.sort();
    println!("{}", json!({"calls": n, "accepted": ok, "rejected": err, "panics": panics, "over_budget": slow,
                          "error_kinds": k, "seed_documents": docs.len()}));
}

/// development aid: c14 load < file   -> JSON of the loaded stream, validator verdict
fn load_cmd() {
    use std::io::Read;
    let mut v = vec![];
    std::io::stdin().read_to_end(&mut v).unwrap();
    match guarded(|| succinctly::yaml::YamlIndex::build(&v).map(|i| i.root(&v).to_json())) {
        Ok(Ok(j)) => println!("json: {j}"),
        Ok(Err(e)) => println!("build error: {e}"),
        Err(p) => println!("PANIC: {p}"),
    }
    match guarded(|| validate(&v)) {
        Ok(Ok(())) => println!("validate: ok"),
        Ok(Err(e)) => println!("validate: {} at {}", e.kind, e.position),
        Err(p) => println!("validate PANIC: {p}"),
    }
}

fn main() {
    let args = Args::parse();
    silence_panics();
    match args.pos.first().map(|s| s.as_str()) {
        Some("replay") if args.pos.len() >= 3 => replay(&args),
        Some("schema") if args.pos.len() >= 3 => schema(&args),
        Some("render") if args.pos.len() >= 2 => render_cmd(&args),
        Some("load") => load_cmd(),
        Some("vrecord") if args.pos.len() >= 3 => vrecord(&args),
        _ => die("usage: c14 replay|schema|render|vrecord ..."),
    }
}
