//! C19 — malformed input never crashes the library or the CLI.
//!
//!   c19 replay <inputs.ndjson> <trace.ndjson> [cap=N] [timeout_ms=N]
//!        inputs: {"fam": "...", "p": [piece strings]}  (pieces as printed by the TLC
//!        generators Mutation.tla / TokenSoup.tla; a piece "<hex..>" is raw bytes)
//!        Every input goes through EVERY byte-string API below in a supervised worker
//!        process; the trace gets an "inv"/"ret" event pair per call (all anomalous calls,
//!        and all calls of a 1-in-k sample of the inputs so the trace stays <= cap events).
//!   c19 cli <inputs.ndjson> <trace.ndjson> cli=<path of succinctly> [timeout_ms=N] [max=N]
//!        runs the CLI subcommands on the inputs, observing exit status / signal.
//!   c19 worker            (internal) request line -> reply line
//!   c19 one <hex> [api]   (debug) run the calls on one input and print the outcomes
//!
//! outcome codes: 0 value, 1 reported error, -2 panic (exit 101 for the CLI), -3 process
//! abort / signal, -4 documented depth-limit panic (not logged in the trace, counted).

#[path = "crash_common/mod.rs"]
mod common;

use common::*;
use std::borrow::Cow;
use std::time::Duration;
use succinctly::dsv::{self, Dsv, DsvConfig, DsvCursor, DsvRows};
use succinctly::jq::document::IndentSpec;
use succinctly::jq::eval_generic::{self, GenericResult};
use succinctly::jq::{self, Expr, JqSemantics, ParserMode, QueryResult, YqSemantics};
use succinctly::json::light::{JsonCursor, JsonIndex, StandardJson};
use succinctly::json::SimpleJsonIndex;
use succinctly::text::{validate_utf8, validate_utf8_broadword, validate_utf8_scalar};
use succinctly::yaml::{YamlCursor, YamlIndex, YamlValue};
use verif_harness::*;

const BUDGET: usize = 200_000;
const MAX_DEPTH: usize = 400;

// ------------------------------------------------------------------------------------------
// pieces -> bytes
// ------------------------------------------------------------------------------------------

fn piece_bytes(p: &str, out: &mut Vec<u8>) {
    let b = p.as_bytes();
    if b.len() >= 4 && b[0] == b'<' && b[b.len() - 1] == b'>' && (b.len() - 2) % 2 == 0 && b[1..b.len() - 1].iter().all(|c| c.is_ascii_hexdigit()) {
        out.extend_from_slice(&unhex(&p[1..p.len() - 1]));
    } else {
        out.extend_from_slice(b);
    }
}

fn input_bytes(v: &Value) -> Vec<Vec<u8>> {
    let fam = v["fam"].as_str().unwrap_or("");
    let ps: Vec<&str> = v["p"].as_array().map(|a| a.iter().map(|x| x.as_str().unwrap_or("")).collect()).unwrap_or_default();
    let mut plain = vec![];
    for p in &ps {
        piece_bytes(p, &mut plain);
    }
    if fam == "jq" && ps.len() > 1 {
        // token soups of programs: glued (lexer boundaries) and space-separated (parser)
        let mut spaced = vec![];
        for (i, p) in ps.iter().enumerate() {
            if i > 0 {
                spaced.push(b' ');
            }
            piece_bytes(p, &mut spaced);
        }
        if spaced != plain {
            return vec![plain, spaced];
        }
    }
    vec![plain]
}

// ------------------------------------------------------------------------------------------
// JSON
// ------------------------------------------------------------------------------------------

/// One traversal routine, several passes: a panic in one accessor family must not mask the
/// others, so each pass (`mode`) touches one family of leaf accessors on every node.
///   0 navigation (value(), fields / elements iteration, find, get, children, parent ...)
///   1 cursor spans (text_position, text_range, raw_bytes, line, column)
///   2 JsonString::raw_bytes / raw_and_escaped     3 JsonString::as_str (values and keys)
///   4 JsonNumber raw_bytes / as_i64 / as_f64
fn json_walk_cursor<'a>(c: JsonCursor<'a>, depth: usize, n: &mut usize, mode: u8) {
    *n += 1;
    if *n > BUDGET || depth > MAX_DEPTH {
        return;
    }
    if mode == 0 {
        let _ = c.is_container();
        let _ = c.bp_position();
        let _ = c.parent().map(|p| p.bp_position());
        let _ = c.first_child().map(|p| p.bp_position());
        let _ = c.next_sibling().map(|p| p.bp_position());
        *n += c.children().take(BUDGET).count();
    }
    if mode == 1 {
        let _ = c.text_position();
        let _ = c.text_range();
        let _ = c.raw_bytes().map(|b| b.len());
        let _ = c.line();
        let _ = c.column();
    }
    let leaf_str = |s: &succinctly::json::light::JsonString<'a>| {
        if mode == 2 {
            let _ = s.raw_bytes().len();
            let _ = s.raw_and_escaped();
        }
        if mode == 3 {
            let _ = s.as_str().map(|x| x.len());
        }
    };
    match c.value() {
        StandardJson::String(s) => leaf_str(&s),
        StandardJson::Number(x) => {
            if mode == 4 {
                let _ = x.raw_bytes().len();
                let _ = x.as_i64();
                let _ = x.as_f64();
            }
        }
        StandardJson::Object(f) => {
            let mut cur = f;
            let mut k = 0;
            while let Some((fld, rest)) = cur.uncons() {
                if let StandardJson::String(s) = fld.key() {
                    leaf_str(&s);
                }
                if mode == 0 {
                    let _ = fld.value();
                }
                if mode == 1 {
                    let _ = fld.key_cursor().text_range();
                }
                json_walk_cursor(fld.value_cursor(), depth + 1, n, mode);
                cur = rest;
                k += 1;
                if k > BUDGET || *n > BUDGET {
                    break;
                }
            }
            if mode == 0 {
                let _ = f.is_empty();
                let _ = f.find("a").is_some();
                let _ = f.find("").is_some();
                let _ = f.find_cursor("b").map(|c| c.bp_position());
                *n += f.take(BUDGET).count();
            }
        }
        StandardJson::Array(e) => {
            let mut cur = e;
            let mut k = 0;
            while let Some((c2, rest)) = cur.uncons_cursor() {
                json_walk_cursor(c2, depth + 1, n, mode);
                cur = rest;
                k += 1;
                if k > BUDGET || *n > BUDGET {
                    break;
                }
            }
            if mode == 0 {
                let _ = e.is_empty();
                let _ = e.get(0).is_some();
                let _ = e.get(1).is_some();
                let _ = e.get(k + 1).is_some();
                let _ = e.get_fast(0).is_some();
                let _ = e.get_fast(k).is_some();
                let _ = e.uncons().is_some();
                *n += e.cursor_iter().take(BUDGET).count();
                *n += e.take(BUDGET).count();
            }
        }
        StandardJson::Bool(_) | StandardJson::Null | StandardJson::Error(_) => {}
    }
}

fn json_build(t: &[u8]) -> Result<usize, String> {
    let ix = JsonIndex::build(t);
    let mut n = ix.ib_len() + ix.bp().len();
    for k in 0..8usize.min(t.len() + 1) {
        let _ = ix.ib_select1(k);
        let _ = ix.ib_select1_from(k, k);
        let _ = ix.ib_rank1(k);
    }
    let _ = ix.ib_rank1(t.len());
    n += ix.ib().len();
    Ok(n)
}

fn json_walk(t: &[u8], mode: u8) -> Result<usize, String> {
    let ix = JsonIndex::build(t);
    let mut n = 0;
    json_walk_cursor(ix.root(t), 0, &mut n, mode);
    Ok(n)
}

fn offsets(len: usize) -> Vec<usize> {
    // only offsets of the text itself (0..=len): out-of-range ARGUMENTS are not "malformed
    // input" and are outside the statement
    let mut v: Vec<usize> = (0..=len.min(96)).collect();
    if len > 96 {
        v.extend([len - 1, len]);
    }
    v
}

fn json_offsets(t: &[u8]) -> Result<usize, String> {
    let ix = JsonIndex::build(t);
    let root = ix.root(t);
    let mut n = 0;
    for off in offsets(t.len()) {
        if let Some(c) = root.cursor_at_offset(off) {
            n += 1;
            let _ = c.text_range();
            let _ = c.value();
        }
        let (l, c) = ix.to_line_column(off, t);
        let _ = ix.to_offset(l, c, t);
        let _ = root.cursor_at_position(l, c).map(|c| c.bp_position());
    }
    let _ = ix.to_offset(0, 0, t);
    let _ = root.cursor_at_position(0, 0).is_some();
    Ok(n)
}

fn json_locate(t: &[u8]) -> Result<usize, String> {
    let ix = JsonIndex::build(t);
    let mut n = 0;
    for off in offsets(t.len()) {
        if succinctly::json::locate::locate_offset(&ix, t, off).is_some() {
            n += 1;
        }
        let _ = succinctly::json::locate::locate_offset_detailed(&ix, t, off).map(|r| r.byte_range);
    }
    Ok(n)
}

fn progs() -> Vec<Expr> {
    thread_local! { static P: Vec<Expr> = build_progs(); }
    P.with(|p| p.clone())
}

fn build_progs() -> Vec<Expr> {
    [".", "[..]", "tojson", "[paths]", "[.. | tostring?]", "[.[]?]", "keys?", "length?", "[.. | numbers | . + 1]", "[.. | strings | ascii_downcase?]"]
        .iter()
        .map(|p| jq::parse(p).unwrap_or_else(|e| die(&format!("harness program {p} does not parse: {e:?}"))))
        .collect()
}

fn json_print(t: &[u8]) -> Result<usize, String> {
    let ix = JsonIndex::build(t);
    let root = ix.root(t);
    let mut n = 0;
    let o = eval_generic::to_owned_cursor(&root);
    n += o.to_json().len();
    for e in progs() {
        let r: QueryResult<Vec<u64>> = jq::eval::<Vec<u64>, JqSemantics>(&e, root);
        for v in r.collect_owned() {
            n += v.to_json().len();
        }
        let g = eval_generic::eval_with_cursor(&e, root);
        for v in g.collect_owned() {
            n += v.to_json().len();
        }
    }
    Ok(n)
}

fn json_validate(t: &[u8]) -> (Out, Option<[usize; 3]>) {
    let mut pos = None;
    let o = call(|| match succinctly::json::validate::validate(t) {
        Ok(()) => Ok(0),
        Err(e) => {
            pos = Some([e.position.offset, e.position.line, e.position.column]);
            Err(format!("{e}"))
        }
    });
    (o, pos)
}

fn json_simple(t: &[u8]) -> Result<usize, String> {
    let ix = SimpleJsonIndex::build(t);
    let mut n = ix.structural_count();
    for k in 0..n.min(64) + 2 {
        if let Some(p) = ix.structural_pos(k) {
            let _ = ix.structural_index(p);
            let _ = ix.find_close(t, p);
            let _ = ix.skip_value(t, p);
            if let Some(ch) = ix.children(t, p) {
                n += ch.take(BUDGET).count();
            }
        }
    }
    for off in offsets(t.len()) {
        let _ = ix.structural_index(off);
        if off < t.len() {
            let _ = ix.skip_value(t, off);
            let _ = ix.find_close(t, off);
        }
    }
    n += ix.structural_positions(t).take(BUDGET).count();
    Ok(n)
}

// ------------------------------------------------------------------------------------------
// YAML
// ------------------------------------------------------------------------------------------

/// passes (see json_walk_cursor):  0 navigation   1 spans / positions   2 node metadata
/// (anchor, tag, comment, alias, style, kind, document index)   3 YamlString::raw_bytes
/// 4 YamlString::as_str + resolve_plain + key_string
fn yaml_touch_cursor<'a>(c: &YamlCursor<'a>, mode: u8) {
    if mode == 0 {
        let _ = c.bp_position();
        let _ = c.is_container();
        let _ = c.parent().map(|p| p.bp_position());
        let _ = c.first_child().map(|p| p.bp_position());
        let _ = c.next_sibling().map(|p| p.bp_position());
        let _ = c.resolve_alias_target_cursor().map(|p| p.bp_position());
    }
    if mode == 1 {
        let _ = c.text_position();
        let _ = c.text_end_position();
        let _ = c.raw_bytes().map(|b| b.len());
        let _ = c.line();
        let _ = c.column();
    }
    if mode == 2 {
        let _ = c.anchor();
        let _ = c.explicit_tag();
        let _ = c.line_comment_raw();
        let _ = c.line_comment();
        let _ = c.line_comment_checked();
        let _ = c.alias();
        let _ = c.is_alias();
        let _ = c.document_index();
        let _ = c.style();
        let _ = c.tag();
        let _ = c.kind();
    }
}

fn yaml_walk_value<'a>(v: YamlValue<'a>, depth: usize, n: &mut usize, mode: u8) {
    *n += 1;
    if *n > BUDGET || depth > MAX_DEPTH {
        return;
    }
    match v {
        YamlValue::Null | YamlValue::Error(_) => {}
        YamlValue::String(s) => {
            if mode == 0 {
                let _ = s.is_unquoted();
            }
            if mode == 3 {
                let _ = s.raw_bytes().len();
            }
            if mode == 4 {
                if let Ok(t) = s.as_str() {
                    let _ = succinctly::yaml::resolve_plain(&t);
                    *n += t.len().min(8);
                }
            }
        }
        YamlValue::Mapping(f) => {
            let mut cur = f.clone();
            let mut k = 0;
            while let Some((fld, rest)) = cur.uncons() {
                let key = fld.key();
                if mode == 4 {
                    let _ = key.key_string();
                }
                yaml_walk_value(key, depth + 1, n, mode);
                yaml_touch_cursor(&fld.key_cursor(), mode);
                yaml_walk_cursor(fld.value_cursor(), depth + 1, n, mode);
                if mode == 0 {
                    let _ = fld.value();
                }
                cur = rest;
                k += 1;
                if k > BUDGET || *n > BUDGET {
                    break;
                }
            }
            if mode == 0 {
                let _ = f.is_empty();
                let _ = f.find("a").is_some();
                let _ = f.find("").is_some();
                let _ = f.find_cursor("b").map(|c| c.bp_position());
                *n += f.take(BUDGET).count();
            }
        }
        YamlValue::Sequence(e) => {
            let mut cur = e;
            let mut k = 0;
            while let Some((c2, rest)) = cur.uncons_cursor() {
                yaml_walk_cursor(c2, depth + 1, n, mode);
                cur = rest;
                k += 1;
                if k > BUDGET || *n > BUDGET {
                    break;
                }
            }
            if mode == 0 {
                let _ = e.is_empty();
                let _ = e.get(0).is_some();
                let _ = e.get(k + 1).is_some();
                let _ = e.uncons().is_some();
                let _ = e.uncons_resolved_cursor().map(|(c, _)| c.bp_position());
                *n += e.take(BUDGET).count();
            }
        }
        YamlValue::Alias { anchor_name, target } => {
            *n += anchor_name.len().min(4);
            if let Some(t) = target {
                yaml_walk_cursor(t, depth + 1, n, mode);
            }
        }
    }
}

fn yaml_walk_cursor<'a>(c: YamlCursor<'a>, depth: usize, n: &mut usize, mode: u8) {
    if *n > BUDGET || depth > MAX_DEPTH {
        return;
    }
    yaml_touch_cursor(&c, mode);
    if mode == 0 {
        *n += c.children().take(BUDGET).count();
    }
    yaml_walk_value(c.value(), depth, n, mode);
}

fn yaml_err(e: succinctly::yaml::YamlError) -> String {
    format!("{e}")
}

fn yaml_build(t: &[u8]) -> Result<usize, String> {
    let ix = YamlIndex::build(t).map_err(yaml_err)?;
    let mut n = ix.ib_len() + ix.bp().len() + ix.ty_len();
    for k in 0..8usize.min(t.len() + 1) {
        let _ = ix.ib_select1(k);
        let _ = ix.ib_select1_from(k, k);
        let _ = ix.ib_rank1(k);
    }
    let bl = ix.bp().len();
    for k in 0..bl.min(64) {
        let _ = ix.bp_to_text_pos(k);
        let _ = ix.bp_to_text_end_pos(k);
        let oi = ix.bp_to_open_idx(k);
        let _ = ix.text_pos_by_open_idx(oi);
        let _ = ix.text_end_pos_by_open_idx(oi);
        let _ = ix.get_tag(k);
        let _ = ix.get_anchor_name(k);
        let _ = ix.get_alias_target(k);
        let _ = ix.get_alias_anchor_name(k);
        let _ = ix.get_line_comment(k);
        let _ = ix.is_container(k);
        let _ = ix.is_sequence_at_bp(k);
        let _ = ix.is_alias(k);
        let _ = ix.count_containers_before(k);
        let _ = ix.bp_to_open_idx(k);
        let _ = ix.is_seq_item(t, k);
        let _ = ix.resolve_alias(k, t).map(|c| c.bp_position());
    }
    let _ = ix.has_aliases();
    let _ = ix.get_anchor_bp_pos("A");
    n += ix.ib().len() + ix.ty().len();
    Ok(n)
}

fn yaml_walk(t: &[u8], mode: u8) -> Result<usize, String> {
    let ix = YamlIndex::build(t).map_err(yaml_err)?;
    let mut n = 0;
    yaml_walk_cursor(ix.root(t), 0, &mut n, mode);
    Ok(n)
}

fn yaml_offsets(t: &[u8]) -> Result<usize, String> {
    let ix = YamlIndex::build(t).map_err(yaml_err)?;
    let root = ix.root(t);
    let mut n = 0;
    for off in offsets(t.len()) {
        if let Some(c) = root.cursor_at_offset(off) {
            n += 1;
            for m in 0..3 {
                yaml_touch_cursor(&c, m);
            }
        }
        let _ = ix.find_bp_at_text_pos(off);
        let (l, c) = ix.to_line_column(off, t);
        let _ = ix.to_offset(l, c, t);
        let _ = root.cursor_at_position(l, c).map(|c| c.bp_position());
        if succinctly::yaml::locate_offset(&ix, t, off).is_some() {
            n += 1;
        }
        let _ = succinctly::yaml::locate_offset_detailed(&ix, t, off).map(|r| r.byte_range);
    }
    let _ = ix.to_offset(0, 0, t);
    Ok(n)
}

fn docs_of<'a>(root: YamlCursor<'a>) -> Vec<YamlCursor<'a>> {
    let mut out = vec![];
    if let YamlValue::Sequence(e) = root.value() {
        let mut cur = e;
        while let Some((c, rest)) = cur.uncons_cursor() {
            out.push(c);
            cur = rest;
            if out.len() > 64 {
                break;
            }
        }
    }
    out
}

fn yaml_to_json(t: &[u8]) -> Result<usize, String> {
    let ix = YamlIndex::build(t).map_err(yaml_err)?;
    let root = ix.root(t);
    let mut n = root.to_json().len() + root.to_json_document().len();
    for d in docs_of(root) {
        n += d.to_json().len();
    }
    Ok(n)
}

fn yaml_stream_json(t: &[u8], which: usize) -> Result<usize, String> {
    let ix = YamlIndex::build(t).map_err(yaml_err)?;
    let root = ix.root(t);
    let (ind, sort) = [(IndentSpec::COMPACT, false), (IndentSpec::spaces(2), true), (IndentSpec { width: 1, unit: '\t' }, false)][which];
    let mut n = 0;
    let mut s = String::new();
    root.stream_json(&mut s, ind, sort).map_err(|_| "fmt error".to_string())?;
    n += s.len();
    let mut s = String::new();
    root.stream_json_document(&mut s, ind, sort).map_err(|_| "fmt error".to_string())?;
    n += s.len();
    Ok(n)
}

/// the same document flagged as JSON-sourced (the yq -p json route)
fn yaml_json_sourced(t: &[u8]) -> Result<usize, String> {
    let mut ix2 = YamlIndex::build(t).map_err(yaml_err)?;
    ix2.mark_json_sourced();
    let r2 = ix2.root(t);
    let mut n = r2.to_json_document().len();
    let mut s = String::new();
    r2.stream_yaml_document(&mut s, IndentSpec::spaces(2), false).map_err(|_| "fmt error".to_string())?;
    n += s.len();
    Ok(n)
}

fn yaml_to_yaml(t: &[u8], which: usize) -> Result<usize, String> {
    let ix = YamlIndex::build(t).map_err(yaml_err)?;
    let root = ix.root(t);
    let mut n = 0;
    let (ind, sort) = [(IndentSpec::spaces(2), false), (IndentSpec::COMPACT, false), (IndentSpec::spaces(4), true), (IndentSpec { width: 1, unit: '\t' }, false)][which];
    let mut s = String::new();
    root.stream_yaml(&mut s, ind, sort).map_err(|_| "fmt error".to_string())?;
    n += s.len();
    let mut s = String::new();
    root.stream_yaml_document(&mut s, ind, sort).map_err(|_| "fmt error".to_string())?;
    n += s.len();
    for d in docs_of(root) {
        let mut s = String::new();
        d.stream_yaml_as_document(&mut s, ind, sort).map_err(|_| "fmt error".to_string())?;
        n += s.len();
        let mut s = String::new();
        d.stream_yaml(&mut s, ind, sort).map_err(|_| "fmt error".to_string())?;
        n += s.len();
    }
    let mut s = String::new();
    succinctly::yaml::stream_yaml_sequence(docs_of(root), &mut s, 0, ind.width, ind.unit, sort).map_err(|_| "fmt error".to_string())?;
    n += s.len();
    Ok(n)
}

fn yaml_eval(t: &[u8]) -> Result<usize, String> {
    let ix = YamlIndex::build(t).map_err(yaml_err)?;
    let root = ix.root(t);
    let mut n = 0;
    let o = eval_generic::to_owned_cursor(&root);
    n += o.to_json().len();
    for e in progs() {
        let g: GenericResult<YamlValue<'_>> = eval_generic::eval_with_cursor_using::<YqSemantics, _>(&e, root);
        for v in g.collect_owned() {
            n += v.to_json().len();
        }
        for d in docs_of(root).into_iter().take(3) {
            let g = eval_generic::eval_with_cursor_using::<JqSemantics, _>(&e, d);
            for v in g.collect_owned() {
                n += v.to_json().len();
            }
        }
    }
    Ok(n)
}

fn yaml_validate(t: &[u8]) -> (Out, Option<[usize; 3]>) {
    let mut pos = None;
    let o = call(|| match succinctly::yaml::validate::validate(t) {
        Ok(()) => Ok(0),
        Err(e) => {
            pos = Some([e.position.offset, e.position.line, e.position.column]);
            Err(format!("{e}"))
        }
    });
    (o, pos)
}

// ------------------------------------------------------------------------------------------
// DSV
// ------------------------------------------------------------------------------------------

const DSV_CFGS: [(&str, u8, u8, u8); 6] = [
    ("csv", b',', b'"', b'\n'),
    ("tsv", b'\t', b'"', b'\n'),
    ("psv", b'|', b'"', b'\n'),
    ("colon_sq", b':', b'\'', b'\n'),
    ("space_cr", b' ', b'"', b'\r'),
    ("a_dash_semi", b'a', b'-', b';'),
];

fn dsv_run(t: &[u8], d: u8, q: u8, nl: u8) -> Result<usize, String> {
    let cfg = DsvConfig { delimiter: d, quote_char: q, newline: nl };
    let x = Dsv::parse_with_config(t, &cfg);
    let mut n = 0;
    let rc = x.row_count();
    let mut nrows = 0;
    for row in x.rows().take(BUDGET) {
        nrows += 1;
        let mut k = 0;
        for f in row.fields().take(BUDGET) {
            n += 1 + f.len().min(4);
            k += 1;
        }
        for c in 0..k + 2 {
            let _ = row.get(c).map(|f| f.len());
        }
    }
    for r in 0..rc.max(nrows).min(200) + 2 {
        if let Some(row) = x.row(r) {
            n += row.fields().take(BUDGET).count();
            let _ = row.get(0);
            let _ = row.get(1);
        }
    }
    // cursor protocol
    let ix = x.index();
    let mut c = DsvCursor::new(x.text(), ix);
    let mut steps = 0;
    loop {
        let f = c.current_field();
        let _ = c.current_field_str().map(|s| s.len());
        n += f.len().min(2);
        let _ = c.position();
        let _ = c.at_end();
        steps += 1;
        if !c.next_field() || steps > t.len() + 4 {
            break;
        }
    }
    let _ = c.current_field();
    let _ = c.next_field();
    let _ = c.next_row();
    let mut c = x.cursor();
    steps = 0;
    while c.next_row() && steps <= t.len() + 4 {
        let _ = c.current_field();
        steps += 1;
    }
    for r in [0usize, 1, 2, rc, rc + 1] {
        let mut c = x.cursor();
        if c.goto_row(r) {
            let _ = c.current_field();
            let _ = c.next_field();
            let _ = c.current_field();
        } else {
            let _ = c.current_field();
        }
    }
    n += DsvRows::new(x.text(), ix).take(BUDGET).count();
    // index accessors
    let _ = ix.marker_count();
    let _ = ix.is_empty();
    for k in 0..(t.len() + 1).min(130) {
        let _ = ix.markers_rank1(k);
        let _ = ix.newlines_rank1(k);
        let _ = ix.markers_select1(k);
        let _ = ix.newlines_select1(k);
    }
    // scalar builder on the same text
    let sc = dsv::build_index_scalar(t, &cfg);
    let dr = dsv::DsvRef::new(t, &sc);
    n += dr.rows().take(BUDGET).map(|r| r.fields().take(BUDGET).count()).sum::<usize>();
    let _ = dr.row(1).map(|r| r.get(1).map(|f| f.len()));
    Ok(n)
}

// ------------------------------------------------------------------------------------------
// UTF-8, jq parser
// ------------------------------------------------------------------------------------------

fn utf8_call(which: usize, t: &[u8]) -> (Out, Option<[usize; 3]>) {
    let mut pos = None;
    let o = call(|| {
        let r = match which {
            0 => validate_utf8(t),
            1 => validate_utf8_scalar(t),
            2 => validate_utf8_broadword(t),
            _ => succinctly::text::validate_utf8_simd(t),
        };
        match r {
            Ok(()) => Ok(0),
            Err(e) => {
                pos = Some([e.offset, e.line, e.column]);
                Err(format!("{e}"))
            }
        }
    });
    (o, pos)
}

fn expr_size(e: &Expr) -> usize {
    format!("{e:?}").len()
}

fn jq_parse_call(which: usize, s: &str) -> (Out, Option<[usize; 3]>) {
    let mut pos = None;
    let o = call(|| {
        let r = match which {
            0 => jq::parse(s).map(|e| expr_size(&e)),
            1 => jq::parse_with_mode(s, ParserMode::Yq).map(|e| expr_size(&e)),
            2 => jq::parse_program(s).map(|p| format!("{p:?}").len()),
            _ => jq::parse_program_with_mode(s, ParserMode::Yq).map(|p| format!("{p:?}").len()),
        };
        match r {
            Ok(n) => Ok(n),
            Err(e) => {
                // ParseError.position: byte offset into the program text
                pos = Some([e.position, 1, 1]);
                Err(format!("{e}"))
            }
        }
    });
    (o, pos)
}

// ------------------------------------------------------------------------------------------
// the call table
// ------------------------------------------------------------------------------------------

const BYTE_APIS: [&str; 43] = [
    "json.build", "json.walk", "json.spans", "json.raw_strings", "json.as_str", "json.numbers", "json.offsets", "json.print",
    "json.validate", "json.simple",
    "yaml.build", "yaml.walk", "yaml.spans", "yaml.meta", "yaml.raw_strings", "yaml.as_str", "yaml.offsets",
    "yaml.to_json", "yaml.stream_json", "yaml.stream_json_sorted", "yaml.stream_json_tab", "yaml.json_sourced",
    "yaml.to_yaml", "yaml.to_yaml_flow", "yaml.to_yaml_sorted", "yaml.to_yaml_tab", "yaml.eval", "yaml.validate",
    "dsv.csv", "dsv.tsv", "dsv.psv", "dsv.colon_sq", "dsv.space_cr", "dsv.a_dash_semi",
    "utf8.validate", "utf8.scalar", "utf8.broadword", "utf8.simd",
    "jq.parse", "jq.parse_yq", "jq.parse_program", "jq.parse_program_yq",
    "json.locate",
];

fn run_api(api: &str, t: &[u8]) -> Option<Value> {
    let mut pos: Option<[usize; 3]> = None;
    let out = match api {
        "json.build" => call(|| json_build(t)),
        "json.walk" => call(|| json_walk(t, 0)),
        "json.spans" => call(|| json_walk(t, 1)),
        "json.raw_strings" => call(|| json_walk(t, 2)),
        "json.as_str" => call(|| json_walk(t, 3)),
        "json.numbers" => call(|| json_walk(t, 4)),
        "json.locate" => call(|| json_locate(t)),
        "json.offsets" => call(|| json_offsets(t)),
        "json.print" => call(|| json_print(t)),
        "json.validate" => {
            let (o, p) = json_validate(t);
            pos = p;
            o
        }
        "json.simple" => call(|| json_simple(t)),
        "yaml.build" => call(|| yaml_build(t)),
        "yaml.walk" => call(|| yaml_walk(t, 0)),
        "yaml.spans" => call(|| yaml_walk(t, 1)),
        "yaml.meta" => call(|| yaml_walk(t, 2)),
        "yaml.raw_strings" => call(|| yaml_walk(t, 3)),
        "yaml.as_str" => call(|| yaml_walk(t, 4)),
        "yaml.stream_json" => call(|| yaml_stream_json(t, 0)),
        "yaml.stream_json_sorted" => call(|| yaml_stream_json(t, 1)),
        "yaml.stream_json_tab" => call(|| yaml_stream_json(t, 2)),
        "yaml.json_sourced" => call(|| yaml_json_sourced(t)),
        "yaml.to_yaml_flow" => call(|| yaml_to_yaml(t, 1)),
        "yaml.to_yaml_sorted" => call(|| yaml_to_yaml(t, 2)),
        "yaml.to_yaml_tab" => call(|| yaml_to_yaml(t, 3)),
        "yaml.offsets" => call(|| yaml_offsets(t)),
        "yaml.to_json" => call(|| yaml_to_json(t)),
        "yaml.to_yaml" => call(|| yaml_to_yaml(t, 0)),
        "yaml.eval" => call(|| yaml_eval(t)),
        "yaml.validate" => {
            let (o, p) = yaml_validate(t);
            pos = p;
            o
        }
        "utf8.validate" | "utf8.scalar" | "utf8.broadword" | "utf8.simd" => {
            let w = ["utf8.validate", "utf8.scalar", "utf8.broadword", "utf8.simd"].iter().position(|x| *x == api).unwrap();
            let (o, p) = utf8_call(w, t);
            pos = p;
            o
        }
        "jq.parse" | "jq.parse_yq" | "jq.parse_program" | "jq.parse_program_yq" => {
            // the parser takes &str: only valid UTF-8 is in its domain
            let s = std::str::from_utf8(t).ok()?;
            let w = ["jq.parse", "jq.parse_yq", "jq.parse_program", "jq.parse_program_yq"].iter().position(|x| *x == api).unwrap();
            let (o, p) = jq_parse_call(w, s);
            pos = p;
            o
        }
        _ => {
            if let Some(name) = api.strip_prefix("dsv.") {
                let (_, d, q, nl) = DSV_CFGS.iter().find(|c| c.0 == name)?;
                call(|| dsv_run(t, *d, *q, *nl))
            } else {
                return None;
            }
        }
    };
    let mut v = out_json(api, out);
    if let Some(p) = pos {
        // [offset, line, column, number of LF/CR bytes before offset]
        let brk = t.iter().take(p[0].min(t.len())).filter(|b| **b == b'\n' || **b == b'\r').count();
        v.as_array_mut().unwrap().push(json!([clamp_i(p[0] as u64), clamp_i(p[1] as u64), clamp_i(p[2] as u64), brk]));
    }
    Some(v)
}

fn run_all(t: &[u8], only: &str) -> Vec<Value> {
    // yaml.* after a failed build would only repeat the build error: one event is enough
    let mut out = vec![];
    let mut yaml_failed = false;
    for api in BYTE_APIS {
        if !only.is_empty() && only != api {
            continue;
        }
        if yaml_failed && only.is_empty() && api.starts_with("yaml.") && api != "yaml.validate" {
            continue;
        }
        if let Some(v) = run_api(api, t) {
            if api == "yaml.build" && v[1].as_i64() == Some(1) {
                yaml_failed = true;
            }
            out.push(v);
        }
    }
    out
}

fn worker() {
    worker_loop(|only, payload| {
        let (sampled, payload) = match payload.strip_prefix('S') {
            Some(p) => (true, p),
            None => (false, payload),
        };
        let t = if payload == "-" { vec![] } else { unhex(payload) };
        let outs = run_all(&t, only);
        if sampled || !only.is_empty() {
            Value::Array(outs)
        } else {
            compact_of(&BYTE_APIS, outs)
        }
    });
}

// ------------------------------------------------------------------------------------------
// supervisor: replay
// ------------------------------------------------------------------------------------------

struct Stats {
    calls: u64,
    ok: u64,
    err: u64,
    panic: u64,
    abort: u64,
    limit: u64,
    inconclusive: u64,
    per_api: std::collections::BTreeMap<String, [u64; 3]>,
}

fn emit_pair(tr: &mut Trace, id: usize, len: usize, o: &Value) {
    let api = o[0].as_str().unwrap_or("");
    let r = o[1].as_i64().unwrap_or(-9);
    tr.emit(json!({"e": "inv", "api": api, "id": id, "len": clamp_i(len as u64)}));
    let mut ev = json!({"e": "ret", "api": api, "id": id, "r": r, "len": clamp_i(len as u64)});
    if r == 0 {
        ev["w"] = o[2].clone();
    } else if r == 1 {
        ev["m"] = o[2].clone();
    }
    if r < 0 {
        ev["msg"] = json!(norm_msg(o[3].as_str().unwrap_or("")));
        ev["loc"] = o[4].clone();
    }
    if let Some(p) = o.get(5) {
        ev["pos"] = p.clone();
    }
    tr.emit(ev);
}

fn replay(args: &Args) {
    let inputs = read_ndjson(&args.pos[1]);
    let mut tr = Trace::create(&args.pos[2]);
    let cap = args.u64("cap", 150_000) as usize;
    let to = Duration::from_millis(args.u64("timeout_ms", 30_000));
    let threads = args.u64("threads", 4) as usize;
    let batch = args.u64("batch", 64) as usize;
    let exe = std::env::current_exe().unwrap().to_string_lossy().to_string();
    // expand inputs
    let mut items: Vec<(usize, Vec<u8>)> = vec![];
    for (i, v) in inputs.iter().enumerate() {
        for b in input_bytes(v) {
            items.push((i, b));
        }
    }
    let apis: Vec<String> = BYTE_APIS.iter().map(|s| s.to_string()).collect();
    // about 2 events per call, ~36 calls per input
    let per_input = 2 * 36;
    let k = (items.len() * per_input).div_ceil(cap.max(1)).max(1);
    let payloads: Vec<String> = items
        .iter()
        .enumerate()
        .map(|(id, (_, b))| format!("{}{}", if id % k == 0 { "S" } else { "" }, if b.is_empty() { "-".to_string() } else { hex(b) }))
        .collect();
    let mut st = Stats { calls: 0, ok: 0, err: 0, panic: 0, abort: 0, limit: 0, inconclusive: 0, per_api: Default::default() };
    let mut anomalies: Vec<(usize, Value)> = vec![];
    let mut kept: Vec<(usize, Vec<Value>)> = vec![];
    let mut built_yaml = 0u64;
    let mut valid_json = 0u64;
    let mut valid_yaml = 0u64;
    let mut parsed_jq = 0u64;
    let restarts = run_supervised(&exe, &["worker"], args.u64("vlimit_kb", 8 << 20), &payloads, &apis, threads, batch, to, |id, res| {
        let (src, bytes) = &items[id];
        for (api, kind) in &res.inconclusive {
            st.inconclusive += 1;
            anomalies.push((id, json!({"id": id, "src": src, "hex": hex(bytes), "kind": kind, "api": api})));
        }
        let sampled = id % k == 0;
        let mut keep = vec![];
        for (i, ch) in res.compact.chars().enumerate() {
            let api = BYTE_APIS[i];
            if ch == '-' || ch == 'P' {
                continue;
            }
            st.calls += 1;
            let e = st.per_api.entry(api.to_string()).or_insert([0; 3]);
            match ch {
                'v' => {
                    st.ok += 1;
                    e[0] += 1;
                    match api {
                        "yaml.build" => built_yaml += 1,
                        "json.validate" => valid_json += 1,
                        "yaml.validate" => valid_yaml += 1,
                        "jq.parse" => parsed_jq += 1,
                        _ => {}
                    }
                }
                'e' => {
                    st.err += 1;
                    e[1] += 1;
                }
                _ => st.limit += 1,
            }
        }
        for o in &res.outs {
            let api = o[0].as_str().unwrap_or("").to_string();
            let r = o[1].as_i64().unwrap_or(-9);
            st.calls += 1;
            let e = st.per_api.entry(api.clone()).or_insert([0; 3]);
            match r {
                0 => {
                    st.ok += 1;
                    e[0] += 1;
                    match api.as_str() {
                        "yaml.build" => built_yaml += 1,
                        "json.validate" => valid_json += 1,
                        "yaml.validate" => valid_yaml += 1,
                        "jq.parse" => parsed_jq += 1,
                        _ => {}
                    }
                }
                1 => {
                    st.err += 1;
                    e[1] += 1;
                }
                -4 => {
                    st.limit += 1;
                    continue;
                }
                _ => {
                    if r == -3 {
                        st.abort += 1;
                    } else {
                        st.panic += 1;
                    }
                    e[2] += 1;
                    anomalies.push((id, json!({"id": id, "src": src, "hex": hex(bytes), "kind": if r == -3 { "abort" } else { "panic" },
                        "api": api, "msg": o[3], "loc": o[4], "text": String::from_utf8_lossy(bytes)})));
                }
            }
            if sampled || r < 0 {
                keep.push(o.clone());
            }
        }
        if !keep.is_empty() {
            kept.push((id, keep));
        }
    });
    // at most ANOM_CAP logged calls per (api, panic location): a gross defect must not produce
    // a trace of millions of events (all of them are still counted)
    const ANOM_CAP: usize = 300;
    let mut seen_anom = std::collections::HashMap::<(String, String), usize>::new();
    kept.sort_by_key(|x| x.0);
    for (id, outs) in &kept {
        for o in outs {
            if o[1].as_i64().unwrap_or(0) < 0 {
                let c = seen_anom.entry((o[0].as_str().unwrap_or("").to_string(), o[4].as_str().unwrap_or("").to_string())).or_insert(0);
                *c += 1;
                if *c > ANOM_CAP {
                    continue;
                }
            }
            emit_pair(&mut tr, *id, items[*id].1.len(), o);
        }
    }
    let n = tr.finish();
    anomalies.sort_by_key(|x| x.0);
    let mut seen_anom = std::collections::HashMap::<(String, String), usize>::new();
    if let Some(p) = args.kv.get("anomalies") {
        let mut t = Trace::create(p);
        for (_, a) in anomalies {
            let c = seen_anom.entry((a["api"].as_str().unwrap_or("").to_string(), a["loc"].as_str().unwrap_or("").to_string())).or_insert(0);
            *c += 1;
            if *c > ANOM_CAP {
                continue;
            }
            t.emit(a);
        }
        t.finish();
    }
    let per: serde_json::Map<String, Value> = st.per_api.iter().map(|(k, v)| (k.clone(), json!(v))).collect();
    println!(
        "{}",
        json!({"inputs": items.len(), "calls": st.calls, "ok": st.ok, "err": st.err, "panic": st.panic, "abort": st.abort,
               "documented_limit": st.limit, "inconclusive": st.inconclusive, "events": n, "sample_every": k,
               "worker_restarts": restarts, "yaml_built": built_yaml, "json_valid": valid_json, "yaml_valid": valid_yaml,
               "jq_parsed": parsed_jq, "per_api": per})
    );
}

// ------------------------------------------------------------------------------------------
// CLI stage
// ------------------------------------------------------------------------------------------

fn cli_stage(args: &Args) {
    let inputs = read_ndjson(&args.pos[1]);
    let mut tr = Trace::create(&args.pos[2]);
    let cli = args.str("cli", "");
    if cli.is_empty() {
        die("cli=<path> required");
    }
    let to = Duration::from_millis(args.u64("timeout_ms", 10_000));
    let max = args.u64("max", 400) as usize;
    let mut rng = Rng::new(args.seed());
    // stratified sample: the same number of inputs from every family, seeded
    let mut by_fam = std::collections::BTreeMap::<String, Vec<Vec<u8>>>::new();
    for v in &inputs {
        let fam = v["fam"].as_str().unwrap_or("").to_string();
        for b in input_bytes(v) {
            by_fam.entry(fam.clone()).or_default().push(b);
        }
    }
    let nf = by_fam.len().max(1);
    let mut items: Vec<(String, Vec<u8>)> = vec![];
    for (fam, mut v) in by_fam {
        rng.shuffle(&mut v);
        v.truncate(max.div_ceil(nf));
        items.extend(v.into_iter().map(|b| (fam.clone(), b)));
    }
    rng.shuffle(&mut items);
    let per_input = args.u64("cmds", 6) as usize;
    let tmp = args.str("tmp", "/tmp");
    let file = format!("{}/c19-cli-input-{}", tmp, std::process::id());
    // (label, args, uses stdin)
    let doc_cmds: Vec<(&str, Vec<&str>)> = vec![
        ("jq .", vec!["jq", "."]),
        ("jq -c .", vec!["jq", "-c", "."]),
        ("jq -S -a .", vec!["jq", "-S", "-a", "."]),
        ("jq --preserve-input -c .", vec!["jq", "--preserve-input", "-c", "."]),
        ("jq --validate .", vec!["jq", "--validate", "."]),
        ("jq -s .", vec!["jq", "-s", "."]),
        ("jq -R .", vec!["jq", "-R", "."]),
        ("jq --seq .", vec!["jq", "--seq", "."]),
        ("jq --input-dsv , .", vec!["jq", "--input-dsv", ",", "-c", "."]),
        ("jq [..]", vec!["jq", "-c", "[..]"]),
        ("yq .", vec!["yq", "."]),
        ("yq -o json .", vec!["yq", "-o", "json", "."]),
        ("yq -o json -I 0 .", vec!["yq", "-o", "json", "-I", "0", "."]),
        ("yq -P .", vec!["yq", "-P", "."]),
        ("yq -I 0 .", vec!["yq", "-I", "0", "."]),
        ("yq -S .", vec!["yq", "-S", "."]),
        ("yq [..]", vec!["yq", "-o", "json", "[..]"]),
        ("yq -p json .", vec!["yq", "-p", "json", "."]),
        ("json validate", vec!["json", "validate", "@FILE"]),
        ("yaml validate", vec!["yaml", "validate", "@FILE"]),
        ("text validate utf8", vec!["text", "validate", "utf8", "@FILE"]),
        ("jq-locate", vec!["jq-locate", "@FILE", "--offset", "1"]),
        ("yq-locate", vec!["yq-locate", "@FILE", "--offset", "1"]),
    ];
    let prog_cmds: Vec<(&str, Vec<&str>)> = vec![
        ("jq -n PROG", vec!["jq", "-n", "-c", "--", "@PROG"]),
        ("yq -n PROG", vec!["yq", "-n", "-o", "json", "--", "@PROG"]),
    ];
    let mut stats = std::collections::BTreeMap::<String, [u64; 4]>::new();
    let mut anomalies = vec![];
    let mut runs = 0u64;
    let mut inconclusive = 0u64;
    // the job list (deterministic), then the runs in parallel, then the events in job order
    struct Job {
        id: usize,
        label: String,
        argv: Vec<String>,
        stdin: bool,
    }
    let mut jobs: Vec<Job> = vec![];
    for (id, (fam, bytes)) in items.iter().enumerate() {
        let is_prog = fam == "jq" || fam == "jq1";
        let all = if is_prog { &prog_cmds } else { &doc_cmds };
        if is_prog && (std::str::from_utf8(bytes).is_err() || bytes.contains(&0)) {
            continue;
        }
        let mut idx: Vec<usize> = (0..all.len()).collect();
        rng.shuffle(&mut idx);
        idx.truncate(per_input.max(1));
        idx.sort();
        let f = format!("{file}-{id}");
        for i in idx {
            let (label, a) = &all[i];
            let argv: Vec<String> = a
                .iter()
                .map(|x| match *x {
                    "@FILE" => f.clone(),
                    "@PROG" => String::from_utf8_lossy(bytes).to_string(),
                    o => o.to_string(),
                })
                .collect();
            jobs.push(Job { id, label: label.to_string(), argv, stdin: !(a.contains(&"@FILE") || is_prog) });
        }
    }
    for (id, (_, bytes)) in items.iter().enumerate() {
        if jobs.iter().any(|j| j.id == id) {
            let f = format!("{file}-{id}");
            std::fs::write(&f, bytes).unwrap_or_else(|e| die(&format!("write {f}: {e}")));
        }
    }
    let results = par_map(&jobs, args.u64("threads", 4) as usize, |_, j| {
        let empty: [u8; 0] = [];
        let stdin: &[u8] = if j.stdin { &items[j.id].1 } else { &empty };
        run_cli(&cli, &j.argv, stdin, to)
    });
    for (id, _) in items.iter().enumerate() {
        let _ = std::fs::remove_file(format!("{file}-{id}"));
    }
    for (j, (kind, code, tail, outlen)) in jobs.iter().zip(results) {
        {
            let (id, label, bytes) = (j.id, &j.label, &items[j.id].1);
            runs += 1;
            let api = format!("cli:{label}");
            let e = stats.entry(api.clone()).or_insert([0; 4]);
            let (r, m): (i64, i64) = match kind.as_str() {
                "timeout" => {
                    inconclusive += 1;
                    e[3] += 1;
                    continue;
                }
                "signal" => (-3, code as i64),
                _ => {
                    if code == 0 {
                        (0, 0)
                    } else if code == 101 {
                        (-2, 101)
                    } else if code == 134 || code == 139 {
                        // shells report signals as 128+n; the CLI is exec'd directly, but be safe
                        (-3, (code - 128) as i64)
                    } else {
                        (1, code.max(1) as i64)
                    }
                }
            };
            match r {
                0 => e[0] += 1,
                1 => e[1] += 1,
                _ => e[2] += 1,
            }
            tr.emit(json!({"e": "inv", "api": api, "id": id, "len": clamp_i(bytes.len() as u64)}));
            let mut ev = json!({"e": "ret", "api": api, "id": id, "r": r, "len": clamp_i(bytes.len() as u64)});
            if r == 0 {
                ev["w"] = json!(outlen.min(1 << 29));
            } else if r == 1 {
                ev["m"] = json!(m);
            }
            if r < 0 {
                // panic location from the CLI's stderr: "panicked at src/x.rs:12:5:"
                let loc = tail
                    .find("panicked at ")
                    .map(|i| {
                        let rest = &tail[i + 12..];
                        let end = rest.find(|c: char| c == '\n' || c == ' ').unwrap_or(rest.len());
                        let l = rest[..end].trim_end_matches(':');
                        let parts: Vec<&str> = l.split(':').collect();
                        if parts.len() >= 2 {
                            format!("{}:{}", norm_file(parts[0]), parts[1])
                        } else {
                            l.to_string()
                        }
                    })
                    .unwrap_or_else(|| if r == -3 { classify_death(code, 0, &tail).to_string() } else { "?".to_string() });
                let msg = norm_msg(tail.lines().rev().find(|l| !l.trim().is_empty() && !l.starts_with("note:")).unwrap_or(""));
                ev["msg"] = json!(msg);
                ev["loc"] = json!(loc);
                anomalies.push(json!({"id": id, "hex": hex(bytes), "kind": if r == -3 { "abort" } else { "panic" }, "api": api,
                    "msg": tail, "loc": ev["loc"], "text": String::from_utf8_lossy(bytes)}));
            }
            tr.emit(ev);
        }
    }
    let _ = std::fs::remove_file(&file);
    let n = tr.finish();
    if let Some(p) = args.kv.get("anomalies") {
        let mut t = Trace::create(p);
        for a in anomalies {
            t.emit(a);
        }
        t.finish();
    }
    let per: serde_json::Map<String, Value> = stats.iter().map(|(k, v)| (k.clone(), json!(v))).collect();
    println!("{}", json!({"inputs": items.len(), "runs": runs, "inconclusive": inconclusive, "events": n, "per_cmd": per}));
}

fn main() {
    let args = Args::parse();
    match args.pos.first().map(|s| s.as_str()) {
        Some("worker") => worker(),
        Some("replay") => replay(&args),
        Some("cli") => cli_stage(&args),
        Some("one") => {
            install_hook();
            let t = unhex(&args.pos[1]);
            let only = args.pos.get(2).cloned().unwrap_or_default();
            for v in run_all(&t, &only) {
                println!("{v}");
            }
        }
        _ => die("usage: c19 replay|cli|worker|one ..."),
    }
    let _: Option<Cow<str>> = None;
}
