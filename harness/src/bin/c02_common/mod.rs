//! C02 — word-level kernels: shared recorder for `c02` (public API only) and `c02h`
//! (additionally the crate-private paths re-exported by hooks/H1-kernel-reexports.patch).
//!
//! usage: c02 record <out.ndjson> seed=N random=N blocks=N scans=N [mode=full|pop]
//!
//! A 64-bit word is logged as the ascending list of its set-bit positions (`word_bits`).
//! Events (validated by spec/Trace_WordKernels.tla):
//!   w:    w, d (1: the trace spec also evaluates the set definitions on this word),
//!         std (1: ranks ks = 0..=65 then "huge" (2^31 and u32::MAX are both called and must agree),
//!         start bits ps = 0..=66 then u32::MAX; 0: no select / find_close results),
//!         sel (one result list per select path, order = "select_paths" of the summary line),
//!         pc (popcount paths), r (find_unmatched_close_in_word), fc (find_close_in_word per ps)
//!   sb:   w (byte as bit list), tab (the 8 table entries of that byte), ks, sel (select_in_byte)
//!   blk:  ws (8 words), r (block popcount, first path), rr (all paths)
//!   scan: rl (run-length bits of all words), n (words), q [[start, rem], ...] (-1 = huge),
//!         rs (scan_select -> [idx, rem] or [-1,-1]), rc (scan_select_scalar), sf (select_from)
//!   ff:   w, q [[start_bit, initial_excess, valid_bits], ...], fr (find_close_in_word_fast)
use verif_harness::*;

pub struct Hooks {
    pub ctz: fn(u64, u32) -> u32,
    pub bw: fn(u64, u32) -> u32,
    pub pdep: Option<fn(u64, u32) -> u32>,
    pub byte: fn(u8, u32) -> u32,
    pub table: &'static [u8; 2048],
    pub avx2: Option<fn(&[u64]) -> usize>,
    pub fast: fn(u64, usize, i32, usize) -> Option<usize>,
    pub fast_bmi2: bool,
}

fn gi(r: Result<i64, String>) -> i64 {
    r.unwrap_or(-2)
}

fn karg(k: i64) -> Vec<u32> {
    if k < 0 {
        vec![1u32 << 31, u32::MAX]
    } else {
        vec![k as u32]
    }
}

/// One select path on one word for every k of `ks`; a huge k (-1) is two calls that must
/// agree (else -3, which no specification value equals).
fn sel_all(f: &dyn Fn(u64, u32) -> u32, w: u64, ks: &[i64]) -> Vec<i64> {
    ks.iter()
        .map(|&k| {
            let rs: Vec<i64> = karg(k).into_iter().map(|kk| gi(guarded(|| f(w, kk) as i64))).collect();
            if rs.iter().all(|&x| x == rs[0]) {
                rs[0]
            } else {
                -3
            }
        })
        .collect()
}

pub fn families(r: &mut Rng, nrandom: usize) -> Vec<(u64, &'static str)> {
    let mut v: Vec<(u64, &'static str)> = vec![];
    // ALL words with <= 2 set bits and with >= 62 set bits
    v.push((0, "le2"));
    for i in 0..64 {
        v.push((1u64 << i, "le2"));
        for j in (i + 1)..64 {
            v.push(((1u64 << i) | (1u64 << j), "le2"));
        }
    }
    let n = v.len();
    for t in 0..n {
        v.push((!v[t].0, "ge62"));
    }
    // byte-periodic (includes the nibble-periodic ones)
    for b in 0..256u64 {
        v.push((b * 0x0101_0101_0101_0101, "byteperiodic"));
    }
    // single-byte-populated
    for j in 0..8 {
        for b in 1..256u64 {
            v.push((b << (8 * j), "singlebyte"));
        }
    }
    // prefix / suffix masks, a run of ones at every offset, alternations
    for nb in 0..=64u32 {
        let m = if nb == 64 { u64::MAX } else { (1u64 << nb) - 1 };
        v.push((m, "mask"));
        v.push((!m, "mask"));
        v.push((m & 0x5555_5555_5555_5555, "mask"));
        v.push((m.rotate_left(29), "mask"));
    }
    // parenthesis-shaped: random Dyck-like words, deep nests, nests at an offset
    for _ in 0..(nrandom / 8).max(64) {
        let mut w = 0u64;
        let mut exc = 0i32;
        let bias = r.range(1, 3);
        for i in 0..64 {
            let left = 64 - i;
            let open = if exc == 0 {
                !r.chance(1, 6)
            } else if exc >= left {
                false
            } else {
                r.chance(bias, 4)
            };
            if open {
                w |= 1u64 << i;
                exc += 1;
            } else {
                exc -= 1;
            }
        }
        v.push((w, "paren"));
    }
    for d in 1..=32u32 {
        let nest = (1u64 << d) - 1; // d opens then closes
        v.push((nest, "paren"));
        v.push((nest << r.below(64 - d as u64 + 1), "paren"));
        v.push((!(nest << (64 - 2 * d).min(63)), "paren"));
    }
    // random: uniform / sparse / dense / byte-structured
    for i in 0..nrandom {
        let w = match i % 5 {
            0 | 1 => r.next_u64(),
            2 => r.next_u64() & r.next_u64() & r.next_u64(),
            3 => r.next_u64() | r.next_u64() | r.next_u64(),
            _ => {
                let mut w = 0u64;
                for j in 0..8 {
                    let b = match r.below(4) {
                        0 => 0,
                        1 => 0xFF,
                        _ => r.below(256),
                    };
                    w |= b << (8 * j);
                }
                w
            }
        };
        v.push((w, "random"));
    }
    v
}

fn bits_json(w: u64) -> Value {
    json!(word_bits(w))
}

pub fn run(h: Option<Hooks>) {
    let args = Args::parse();
    if args.pos.len() < 2 || args.pos[0] != "record" {
        die("usage: c02 record <out> seed=N random=N blocks=N scans=N mode=full|pop");
    }
    silence_panics();
    let mut r = Rng::new(args.seed());
    let nrandom = args.u64("random", 2000) as usize;
    let nblocks = args.u64("blocks", 1500) as usize;
    let nscans = args.u64("scans", 400) as usize;
    let pop_only = args.str("mode", "full") == "pop";
    let mut tr = Trace::create(&args.pos[1]);

    let have_avx2 = std::arch::is_x86_feature_detected!("avx2");
    let have_bmi2 = std::arch::is_x86_feature_detected!("bmi2");

    // ---------------- select / popcount / parenthesis kernels, one event per word --------------
    let mut sel_paths: Vec<(&str, Box<dyn Fn(u64, u32) -> u32>)> =
        vec![("dispatch", Box::new(|w, k| succinctly::select_in_word(w, k)))];
    if let Some(h) = &h {
        let (c, b) = (h.ctz, h.bw);
        sel_paths.push(("ctz", Box::new(move |w, k| c(w, k))));
        sel_paths.push(("broadword", Box::new(move |w, k| b(w, k))));
        if let Some(p) = h.pdep {
            sel_paths.push(("pdep", Box::new(move |w, k| p(w, k))));
        }
    }
    let pc_paths = ["popcount_word", "popcount_word_portable", "popcount_words[1]"];
    let mut ks: Vec<i64> = (0..=65).collect();
    ks.push(-1);
    let mut ps: Vec<i64> = (0..=66).collect();
    ps.push(-1);

    let fam = families(&mut r, nrandom);
    let mut results = 0usize;
    let mut fam_count: std::collections::BTreeMap<&str, usize> = Default::default();
    for (wi, &(w, f)) in fam.iter().enumerate() {
        *fam_count.entry(f).or_default() += 1;
        // d = 1: Trace_WordKernels also evaluates the set definitions (Part 1) on this word
        let d = (w.count_ones() <= 6 && (wi % 10 == 0 || w.count_ones() <= 1)) as i64;
        let pc: Vec<i64> = vec![
            gi(guarded(|| succinctly::bits::popcount_word(w) as i64)),
            gi(guarded(|| succinctly::bits::popcount_word_portable(w) as i64)),
            gi(guarded(|| clamp_i(succinctly::bits::popcount_words(&[w]) as u64))),
        ];
        if pop_only {
            tr.emit(json!({"e": "w", "w": bits_json(w), "d": d, "std": 0, "sel": [], "pc": pc,
                           "r": gi(guarded(|| succinctly::trees::find_unmatched_close_in_word(w) as i64)),
                           "fc": []}));
            results += 4;
            continue;
        }
        let sel: Vec<Vec<i64>> = sel_paths.iter().map(|(_, f)| sel_all(f.as_ref(), w, &ks)).collect();
        let uc = gi(guarded(|| succinctly::trees::find_unmatched_close_in_word(w) as i64));
        let fc: Vec<i64> = ps
            .iter()
            .map(|&p| {
                let pp = if p < 0 { u32::MAX } else { p as u32 };
                gi(guarded(|| match succinctly::trees::find_close_in_word(w, pp) {
                    Some(x) => x as i64,
                    None => -1,
                }))
            })
            .collect();
        results += sel.len() * ks.len() + pc.len() + 1 + fc.len();
        tr.emit(json!({"e": "w", "w": bits_json(w), "d": d, "std": 1, "sel": sel, "pc": pc, "r": uc, "fc": fc}));
    }

    // ---------------- byte select table: its whole input space (hooks only) -----------------
    let mut table_entries = 0usize;
    if let (Some(h), false) = (&h, pop_only) {
        let mut bks: Vec<i64> = (0..=10).collect();
        bks.push(-1);
        for b in 0..256usize {
            let tab: Vec<i64> = (0..8).map(|k| h.table[b * 8 + k] as i64).collect();
            let f = h.byte;
            let sel = sel_all(&move |w: u64, k: u32| f(w as u8, k), b as u64, &bks);
            table_entries += 8;
            results += 8 + bks.len();
            tr.emit(json!({"e": "sb", "w": bits_json(b as u64), "tab": tab, "ks": bks, "sel": sel}));
        }
    }

    // ---------------- 8-word block popcount -------------------------------------------------
    let mut blk_paths = vec!["block_popcount_portable", "popcount_words[8]"];
    if h.as_ref().map(|h| h.avx2.is_some()).unwrap_or(false) {
        blk_paths.push("block_popcount_avx2");
    }
    let pick_word = |r: &mut Rng| -> u64 {
        match r.below(8) {
            0 => 0,
            1 => u64::MAX,
            2 => r.next_u64() & r.next_u64() & r.next_u64(),
            3 => r.next_u64() | r.next_u64() | r.next_u64(),
            4 => fam[r.below(fam.len() as u64) as usize].0,
            _ => r.next_u64(),
        }
    };
    let mut blocks: Vec<[u64; 8]> = vec![[0; 8], [u64::MAX; 8]];
    for j in 0..8 {
        // one populated word / one populated byte lane at every position
        let mut b = [0u64; 8];
        b[j] = u64::MAX;
        blocks.push(b);
        let mut c = [u64::MAX; 8];
        c[j] = 0;
        blocks.push(c);
        for byte in 0..8 {
            let mut d = [0u64; 8];
            d[j] = 0xFFu64 << (8 * byte);
            blocks.push(d);
            let mut e = [0u64; 8];
            e[j] = 1u64 << (8 * byte + (j + byte) % 8);
            blocks.push(e);
        }
    }
    if !pop_only {
        while blocks.len() < nblocks {
            let mut b = [0u64; 8];
            let sparse = r.chance(1, 3);
            for x in b.iter_mut() {
                *x = if sparse && r.chance(2, 3) { 0 } else { pick_word(&mut r) };
            }
            blocks.push(b);
        }
    }
    for b in &blocks {
        let mut rr: Vec<i64> = vec![
            gi(guarded(|| succinctly::bits::block_popcount_portable(b) as i64)),
            gi(guarded(|| succinctly::bits::popcount_words(b) as i64)),
        ];
        if let Some(Some(f)) = h.as_ref().map(|h| h.avx2) {
            rr.push(gi(guarded(|| f(b) as i64)));
        }
        results += rr.len();
        let ws: Vec<Value> = b.iter().map(|&w| bits_json(w)).collect();
        tr.emit(json!({"e": "blk", "ws": ws, "r": rr[0], "rr": rr}));
    }

    // ---------------- scan_select vs scan_select_scalar vs select_from ----------------------
    let mut nscan_q = 0usize;
    if !pop_only {
        for si in 0..nscans {
            let n = match si % 6 {
                0 => r.below(10) as usize,
                1 => r.range(7, 18) as usize,
                _ => r.range(15, 60) as usize,
            };
            // words built from runs so the run-length form stays short: zero stretches (whole
            // blocks skipped), full stretches, and a few structured words
            let mut words = vec![0u64; n];
            let style = r.below(4);
            for w in words.iter_mut() {
                *w = match style {
                    0 => if r.chance(1, 6) { 1u64 << r.below(64) } else { 0 },
                    1 => if r.chance(1, 5) { (1u64 << r.range(1, 63)) - 1 } else if r.chance(1, 2) { 0 } else { u64::MAX },
                    2 => if r.chance(1, 3) { u64::MAX << r.below(64) } else { 0 },
                    _ => match r.below(5) { 0 => u64::MAX, 1 => 0xFF00, 2 => 1, 3 => 1u64 << 63, _ => 0 },
                };
            }
            let pops: Vec<usize> = words.iter().map(|w| w.count_ones() as usize).collect();
            let total: usize = pops.iter().sum();
            let mut qs: Vec<(usize, usize)> = vec![];
            for start in [0usize, 1, 7, 8, 9, n / 2, n.saturating_sub(1), n, n + 1] {
                let after: usize = pops.iter().skip(start).sum();
                for rem in [0usize, 1, after.saturating_sub(1), after, after + 1, after / 2, usize::MAX] {
                    qs.push((start, rem));
                }
                // rank boundaries of every block edge reachable from `start`
                let mut cum = 0usize;
                for (i, p) in pops.iter().enumerate().skip(start) {
                    cum += p;
                    if (i + 1 - start) % 8 == 0 || r.chance(1, 6) {
                        qs.push((start, cum.saturating_sub(1)));
                        qs.push((start, cum));
                    }
                }
            }
            for _ in 0..6 {
                qs.push((r.below(n as u64 + 2) as usize, r.below(total as u64 + 2) as usize));
            }
            qs.sort();
            qs.dedup();
            let opt2 = |o: Option<(usize, usize)>| match o {
                Some((a, b)) => json!([clamp_i(a as u64), clamp_i(b as u64)]),
                None => json!([-1, -1]),
            };
            let mut q = vec![];
            let (mut rs, mut rc, mut sf) = (vec![], vec![], vec![]);
            for &(s, m) in &qs {
                q.push(json!([clamp_i(s as u64), clamp_i(m as u64)]));
                rs.push(guarded(|| opt2(succinctly::bits::scan_select(&words, s, m))).unwrap_or(json!([-2, -2])));
                rc.push(guarded(|| opt2(succinctly::bits::scan_select_scalar(&words, s, m))).unwrap_or(json!([-2, -2])));
                sf.push(guarded(|| opt_i(succinctly::bits::select_from(&words, s, m))).unwrap_or(json!(-2)));
            }
            nscan_q += qs.len();
            results += 3 * qs.len();
            tr.emit(json!({"e": "scan", "rl": rle_json(&rle_of_words(&words)), "n": n, "q": q, "rs": rs, "rc": rc, "sf": sf}));
        }
    }

    // ---------------- find_close_in_word_fast (hooks only) ----------------------------------
    let mut nfast = 0usize;
    if let (Some(h), false) = (&h, pop_only) {
        let f = h.fast;
        for (i, &(w, famname)) in fam.iter().enumerate() {
            if !(famname == "paren" || famname == "mask" || i % 7 == 0) {
                continue;
            }
            let mut q: Vec<[i64; 3]> = vec![];
            for _ in 0..24 {
                let v = match r.below(4) {
                    0 => 64,
                    1 => r.range(1, 64),
                    2 => 8 * r.range(1, 8),
                    _ => r.range(56, 64),
                } as i64;
                let s = match r.below(3) {
                    0 => 8 * r.below(8),
                    _ => r.below(64),
                } as i64;
                let x = match r.below(4) {
                    0 => 1,
                    1 => r.range(1, 4),
                    2 => r.range(14, 19),
                    _ => r.range(1, 40),
                } as i64;
                q.push([s, x, v]);
            }
            q.push([0, 1, 64]);
            q.push([63, 1, 64]);
            q.push([64, 1, 64]);
            let fr: Vec<i64> = q
                .iter()
                .map(|t| {
                    gi(guarded(|| match f(w, t[0] as usize, t[1] as i32, t[2] as usize) {
                        Some(x) => x as i64,
                        None => -1,
                    }))
                })
                .collect();
            nfast += fr.len();
            results += fr.len();
            let d = (w.count_ones() <= 6 && i % 3 == 0) as i64;
            tr.emit(json!({"e": "ff", "w": bits_json(w), "d": d, "q": q, "fr": fr}));
        }
    }

    let n = tr.finish();
    let names: Vec<&str> = sel_paths.iter().map(|p| p.0).collect();
    println!(
        "{}",
        json!({"events": n, "results": results, "words": fam.len(), "families": fam_count,
               "select_paths": names, "popcount_paths": pc_paths, "block_paths": blk_paths,
               "blocks": blocks.len(), "scan_queries": nscan_q, "table_entries": table_entries,
               "fast_close_queries": nfast, "hooks": h.is_some(),
               "host": {"avx2": have_avx2, "bmi2": have_bmi2,
                        "fast_bmi2": h.as_ref().map(|h| h.fast_bmi2)}})
    );
}
