//! C12 — line/column mapping: record traces of the real `text::LineIndex` (with the cache
//! exposed by the verif hook) and of the JsonIndex / YamlIndex wrappers.
//!
//! usage: c12 record <out.ndjson> seed=N texts=N ops=N
use succinctly::json::JsonIndex;
use succinctly::text::LineIndex;
use succinctly::yaml::YamlIndex;
use verif_harness::*;

const TOP: u64 = (1 << 31) - 2; // largest offset whose column still fits a TLC integer

/// Texts whose breaks (LF, CR, CRLF, CR CR LF ...) straddle power-of-two block boundaries
/// (64 .. 65536): a builder that scans in blocks must not split a CRLF.
fn gen_block_text(r: &mut Rng) -> Vec<u8> {
    let block = *r.pick(&[64usize, 256, 1024, 4096, 4096, 8192, 65536]);
    let nblocks = if block >= 65536 { 1 } else { r.range(1, 4) as usize };
    let mut t = vec![b'a'; block * nblocks + r.below(200) as usize + 2];
    for k in 1..=nblocks {
        let at = k * block; // first byte of block k
        let brk: &[u8] = *r.pick(&[&b"\r\n"[..], b"\r\n", b"\n", b"\r", b"\r\r\n", b"\n\r", b"\r\n\r\n"]);
        // place the break so that it ends at, straddles, or starts at the boundary
        let shift = r.below(brk.len() as u64 + 1) as usize;
        let start = at - shift.min(at);
        for (i, &b) in brk.iter().enumerate() {
            if start + i < t.len() {
                t[start + i] = b;
            }
        }
    }
    // a few more ordinary breaks
    for _ in 0..r.below(6) {
        let p = r.below(t.len() as u64) as usize;
        t[p] = if r.coin() { b'\n' } else { b'\r' };
    }
    t
}

fn gen_text(r: &mut Rng) -> Vec<u8> {
    if r.chance(1, 7) {
        return gen_block_text(r);
    }
    let lines =*r.pick(&[0u64, 1, 2, 3, 5, 15, 16, 17, 18, 33, 40, 100, 400]);
    let brk_mode = r.below(5); // 0 LF, 1 CR, 2 CRLF, 3 mixed, 4 mixed with LFCR / CRCR clusters
    let mut t = vec![];
    if r.chance(1, 5) {
        for _ in 0..r.range(1, 3) {
            t.push(if r.coin() { b'\n' } else { b'\r' });
        }
    }
    for _ in 0..lines {
        let w = match r.below(5) {
            0 => 0,
            1 => 1,
            2 => r.below(4),
            3 => r.below(30),
            _ => r.below(90),
        };
        t.extend(std::iter::repeat(b'a').take(w as usize));
        match (brk_mode, r.below(6)) {
            (0, _) => t.push(b'\n'),
            (1, _) => t.push(b'\r'),
            (2, _) => t.extend_from_slice(b"\r\n"),
            (3, k) => match k {
                0 | 1 => t.push(b'\n'),
                2 | 3 => t.push(b'\r'),
                _ => t.extend_from_slice(b"\r\n"),
            },
            (_, k) => match k {
                0 => t.extend_from_slice(b"\n\r"),
                1 => t.extend_from_slice(b"\r\r"),
                2 => t.extend_from_slice(b"\r\r\n"),
                3 => t.extend_from_slice(b"\n\n"),
                4 => t.extend_from_slice(b"\r\n\n"),
                _ => t.push(b'\n'),
            },
        }
    }
    if r.coin() {
        // last line without terminator
        t.extend(std::iter::repeat(b'a').take(r.below(6) as usize));
    }
    if r.chance(1, 6) && !t.is_empty() {
        // end on a lone CR / LF
        t.push(if r.coin() { b'\r' } else { b'\n' });
    }
    t
}

fn classes(t: &[u8]) -> Vec<u8> {
    t.iter()
        .map(|&b| match b {
            b'\n' => 1,
            b'\r' => 2,
            _ => 0,
        })
        .collect()
}

enum Obj<'a> {
    L(LineIndex),
    J(JsonIndex<Vec<u64>>, &'a [u8]),
    Y(YamlIndex<Vec<u64>>, &'a [u8]),
}

impl Obj<'_> {
    fn lc(&self, o: usize) -> (usize, usize) {
        match self {
            Obj::L(x) => x.to_line_column(o),
            Obj::J(x, t) => x.to_line_column(o, t),
            Obj::Y(x, t) => x.to_line_column(o, t),
        }
    }
    fn off(&self, l: usize, c: usize) -> Option<usize> {
        match self {
            Obj::L(x) => x.to_offset(l, c),
            Obj::J(x, t) => x.to_offset(l, c, t),
            Obj::Y(x, t) => x.to_offset(l, c, t),
        }
    }
}

fn main() {
    let args = Args::parse();
    if args.pos.len() < 2 || args.pos[0] != "record" {
        die("usage: c12 record <out> seed=N texts=N ops=N");
    }
    silence_panics();
    let mut r = Rng::new(args.seed());
    let texts = args.u64("texts", 100);
    let nops = args.u64("ops", 150);
    let mut tr = Trace::create(&args.pos[1]);
    let hooked = i32::from(cfg!(feature = "hooks"));

    for ti in 0..texts {
        let text = gen_text(&mut r);
        let len = text.len();
        let kind = match ti % 5 {
            3 => "json",
            4 => "yaml",
            _ => "lidx",
        };
        let obj = match kind {
            "json" => Obj::J(JsonIndex::build(&text), &text),
            "yaml" => match guarded(|| YamlIndex::build(&text)) {
                Ok(Ok(y)) => Obj::Y(y, &text),
                _ => Obj::L(LineIndex::build(&text)), // text the YAML loader rejects: fall back
            },
            _ => Obj::L(LineIndex::build(&text)),
        };
        let kind = match &obj {
            Obj::L(_) => "lidx",
            Obj::J(..) => "json",
            Obj::Y(..) => "yaml",
        };
        let lines = match &obj {
            Obj::L(x) => x.line_count() as i64,
            _ => LineIndex::build(&text).line_count() as i64,
        };
        tr.emit(json!({"e":"build","kind":kind,"t":classes(&text),"len":len,"lines":lines}));

        // line starts for targeted queries (harness-side naive scan, only used to aim queries)
        let mut starts = vec![0usize];
        {
            let mut i = 0;
            while i < len {
                let w = succinctly::text::line_break::line_break_len(&text, i);
                if w == 0 {
                    i += 1;
                } else {
                    i += w;
                    if i < len {
                        starts.push(i);
                    }
                }
            }
        }
        let nl = starts.len();
        let mut pos = 0usize; // a walking position for forward/backward patterns
        let mut i = 0;
        while i < nops {
            i += 1;
            match r.below(12) {
                0..=7 => {
                    // to_line_column with a history pattern
                    let o: u64 = match r.below(12) {
                        0 => pos as u64,                                     // exact repeat
                        1 | 2 => {
                            // forward by 1..40 lines (shorter and longer than the 16-line cap)
                            let cur_line = starts.partition_point(|&s| s <= pos) - 1;
                            let step = *r.pick(&[1usize, 1, 2, 3, 15, 16, 17, 18, 40]);
                            let tl = (cur_line + step).min(nl - 1);
                            (starts[tl] + r.below(3) as usize) as u64
                        }
                        3 => pos as u64 + r.below(4),                        // small forward
                        4 => (pos as u64).saturating_sub(r.below(60)),       // backward
                        5 => starts[r.below(nl as u64) as usize] as u64,     // exactly a line start
                        6 => (starts[r.below(nl as u64) as usize] as u64).saturating_sub(1), // just before
                        7 => len as u64 + r.below(5),                        // at / past the end
                        8 => *r.pick(&[TOP, 1 << 30, (1 << 20) + 7, len as u64 * 2 + 1]),
                        9 => 0,
                        _ => r.below(len as u64 + 2),
                    };
                    let o = o.min(TOP);
                    let res = guarded(|| obj.lc(o as usize));
                    #[allow(unused_mut)]
                    let mut cache = json!([-1, -1, -1]);
                    #[cfg(feature = "hooks")]
                    if let Obj::L(x) = &obj {
                        if let Some((a, b, c)) = x.verif_cache() {
                            cache = json!([a, b, c]);
                        }
                    }
                    match res {
                        Ok((l, c)) => tr.emit(json!({"e":"lc","a":o,"line":l,"col":clamp31(c),"cache":cache,"hooked":hooked})),
                        Err(_) => tr.emit(json!({"e":"lc","a":o,"line":-2,"col":-2,"cache":cache,"hooked":hooked})),
                    }
                    if (o as usize) <= len + 4 {
                        pos = o as usize;
                    }
                }
                8..=10 => {
                    let line: u64 = match r.below(8) {
                        0 => 0,
                        1 => nl as u64,
                        2 => nl as u64 + 1,
                        3 => u64::MAX,
                        _ => r.below(nl as u64 + 2),
                    };
                    let col: u64 = match r.below(10) {
                        0 => 0,
                        1 => u64::MAX,
                        2 => 1,
                        3 => 1 << 40,
                        4 => len as u64 + 1,
                        _ => r.below(95),
                    };
                    let res = guarded(|| obj.off(line as usize, col as usize));
                    tr.emit(json!({"e":"off","line":clamp_i(line),"col":clamp_i(col),
                                   "r": res.map(|v| v.map(|x| x as i64).unwrap_or(-1)).unwrap_or(-2)}));
                }
                _ => {
                    if let Obj::L(x) = &obj {
                        let line: u64 = match r.below(5) {
                            0 => 0,
                            1 => u64::MAX,
                            _ => r.below(nl as u64 + 2),
                        };
                        let res = guarded(|| x.line_start(line as usize));
                        tr.emit(json!({"e":"ls","line":clamp_i(line),
                                       "r": res.map(|v| v.map(|x| x as i64).unwrap_or(-1)).unwrap_or(-2)}));
                    }
                }
            }
        }
    }
    let n = tr.finish();
    println!("{{\"events\":{n}}}");
}

fn clamp31(c: usize) -> i64 {
    if (c as u64) < (1 << 31) {
        c as i64
    } else {
        -3
    }
}
