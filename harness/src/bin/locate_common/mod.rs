//! Shared by c28 / c29 (locate group): value trees with recorded token spans, the JSON and
//! YAML generators (renderers that record the byte span of every token they write), the
//! tagged-record encodings of spec/Locate.tla, and drivers for the real evaluators.
//!
//! The renderers are the trusted part: a tree's spans are exactly what the renderer wrote.
//! Every generated case is self-checked before use (`self_check_json` / `self_check_yaml`):
//! a second reader must recover the intended value from the text and from every token's span.
#![allow(dead_code)]

use succinctly::jq::eval_generic::{self, GenericResult};
use succinctly::jq::{self, Expr, JqSemantics, OwnedValue, ParserMode, QueryResult, YqSemantics};
use succinctly::json::JsonIndex;
use succinctly::yaml::YamlIndex;
use verif_harness::*;

// ---------------------------------------------------------------------------------------
// values and trees
// ---------------------------------------------------------------------------------------

#[derive(Clone, Debug, PartialEq)]
pub enum V {
    Null,
    Bool(bool),
    Num(i64),
    Str(String),
    Arr(Vec<V>),
    Obj(Vec<(String, V)>),
}

#[derive(Clone, Debug)]
pub struct KeyT {
    pub s: i64,
    pub e: i64,
    pub k: String,
}

#[derive(Clone, Debug)]
pub enum TN {
    Null,
    Bool(bool),
    Num(i64),
    Str(String),
    Arr(Vec<T>),
    Obj(Vec<(KeyT, T)>),
}

/// a node with the span [s, e) of its token; s = e = -1: virtual (no token of its own)
#[derive(Clone, Debug)]
pub struct T {
    pub s: i64,
    pub e: i64,
    pub n: TN,
}

pub fn cps(s: &str) -> Value {
    Value::Array(s.chars().map(|c| json!(c as u32)).collect())
}

impl T {
    pub fn virt(n: TN) -> T {
        T { s: -1, e: -1, n }
    }
    /// tree encoding of spec/Locate.tla (with spans)
    pub fn enc(&self) -> Value {
        let (s, e) = (self.s, self.e);
        match &self.n {
            TN::Null => json!({"t":"null","s":s,"e":e}),
            TN::Bool(b) => json!({"t":"bool","s":s,"e":e,"b": i32::from(*b)}),
            TN::Num(i) => json!({"t":"num","s":s,"e":e,"lit": i.to_string()}),
            TN::Str(x) => json!({"t":"str","s":s,"e":e,"cp": cps(x)}),
            TN::Arr(a) => json!({"t":"arr","s":s,"e":e,"v": a.iter().map(|x| x.enc()).collect::<Vec<_>>()}),
            TN::Obj(kv) => json!({"t":"obj","s":s,"e":e,"kv": kv.iter().map(|(k, v)|
                json!([{"s":k.s,"e":k.e,"cp":cps(&k.k)}, v.enc()])).collect::<Vec<_>>()}),
        }
    }
    pub fn value(&self) -> V {
        match &self.n {
            TN::Null => V::Null,
            TN::Bool(b) => V::Bool(*b),
            TN::Num(i) => V::Num(*i),
            TN::Str(s) => V::Str(s.clone()),
            TN::Arr(a) => V::Arr(a.iter().map(|x| x.value()).collect()),
            TN::Obj(kv) => V::Obj(kv.iter().map(|(k, v)| (k.k.clone(), v.value())).collect()),
        }
    }
    pub fn is_cont(&self) -> bool {
        matches!(self.n, TN::Arr(_) | TN::Obj(_))
    }
}

impl V {
    pub fn to_serde(&self) -> Value {
        match self {
            V::Null => Value::Null,
            V::Bool(b) => json!(b),
            V::Num(i) => json!(i),
            V::Str(s) => json!(s),
            V::Arr(a) => Value::Array(a.iter().map(|x| x.to_serde()).collect()),
            V::Obj(kv) => {
                let mut m = serde_json::Map::new();
                for (k, v) in kv {
                    m.insert(k.clone(), v.to_serde());
                }
                Value::Object(m)
            }
        }
    }
    pub fn nodes(&self) -> usize {
        match self {
            V::Arr(a) => 1 + a.iter().map(|x| x.nodes()).sum::<usize>(),
            V::Obj(kv) => 1 + kv.iter().map(|(_, x)| x.nodes()).sum::<usize>(),
            _ => 1,
        }
    }
}

/// value encoding (no spans) of a serde_json value; numbers by their printed text
pub fn enc_serde(v: &Value) -> Value {
    match v {
        Value::Null => json!({"t":"null"}),
        Value::Bool(b) => json!({"t":"bool","b": i32::from(*b)}),
        Value::Number(n) => json!({"t":"num","lit": n.to_string()}),
        Value::String(s) => json!({"t":"str","cp": cps(s)}),
        Value::Array(a) => json!({"t":"arr","v": a.iter().map(enc_serde).collect::<Vec<_>>()}),
        Value::Object(m) => json!({"t":"obj","kv": m.iter().map(|(k, v)| json!([{"cp":cps(k)}, enc_serde(v)])).collect::<Vec<_>>()}),
    }
}

pub fn enc_owned(o: &OwnedValue) -> Value {
    match o {
        OwnedValue::Null => json!({"t":"null"}),
        OwnedValue::Bool(b) => json!({"t":"bool","b": i32::from(*b)}),
        OwnedValue::String(s) => json!({"t":"str","cp": cps(s)}),
        OwnedValue::Array(a) => json!({"t":"arr","v": a.iter().map(enc_owned).collect::<Vec<_>>()}),
        OwnedValue::Object(m) => json!({"t":"obj","kv": m.iter().map(|(k, v)| json!([{"cp":cps(k)}, enc_owned(v)])).collect::<Vec<_>>()}),
        // any number: its printed JSON text
        other => json!({"t":"num","lit": other.to_json()}),
    }
}

pub fn err_val(msg: &str) -> Value {
    json!({"t":"err","msg": msg})
}

// ---------------------------------------------------------------------------------------
// tokens and qualifying offsets (harness side; the spec recomputes them from the tree)
// ---------------------------------------------------------------------------------------

#[derive(Clone, Debug)]
pub struct TokInfo {
    pub s: i64,
    pub e: i64,
    pub key: bool,
    pub cont: bool,
    /// the token's own value / the value its path names (plain JSON, for the CLI sample)
    pub own: Value,
    pub named: Value,
}

pub fn tokens(t: &T, out: &mut Vec<TokInfo>) {
    let v = t.value().to_serde();
    out.push(TokInfo { s: t.s, e: t.e, key: false, cont: t.is_cont(), own: v.clone(), named: v });
    match &t.n {
        TN::Arr(a) => {
            for x in a {
                tokens(x, out);
            }
        }
        TN::Obj(kv) => {
            for (k, x) in kv {
                out.push(TokInfo { s: k.s, e: k.e, key: true, cont: false, own: json!(k.k), named: x.value().to_serde() });
                tokens(x, out);
            }
        }
        _ => {}
    }
}

/// every qualifying offset with the index of its token; `cq`: container brackets qualify
pub fn qualifying(toks: &[TokInfo], cq: bool) -> Vec<(usize, usize)> {
    let mut out = vec![];
    for (i, k) in toks.iter().enumerate() {
        if k.s < 0 {
            continue;
        }
        if k.cont {
            if cq {
                out.push((k.s as usize, i));
            }
        } else {
            for o in k.s..k.e {
                out.push((o as usize, i));
            }
        }
    }
    out.sort();
    out
}

// ---------------------------------------------------------------------------------------
// line / column  (LF, lone CR and CRLF are one break each: spec/LineIndex.tla)
// ---------------------------------------------------------------------------------------

pub fn byte_classes(text: &[u8]) -> Vec<u8> {
    text.iter().map(|&b| if b == b'\n' { 1 } else if b == b'\r' { 2 } else { 0 }).collect()
}

pub fn line_starts(text: &[u8]) -> Vec<usize> {
    let mut st = vec![0usize];
    let mut p = 0;
    while p < text.len() {
        let w = if text[p] == b'\r' {
            if p + 1 < text.len() && text[p + 1] == b'\n' { 2 } else { 1 }
        } else if text[p] == b'\n' {
            1
        } else {
            0
        };
        if w == 0 {
            p += 1;
        } else {
            p += w;
            if p < text.len() {
                st.push(p);
            }
        }
    }
    st
}

pub fn line_col(starts: &[usize], off: usize) -> (usize, usize) {
    let ln = starts.partition_point(|&s| s <= off);
    (ln, off - starts[ln - 1] + 1)
}

// ---------------------------------------------------------------------------------------
// palettes
// ---------------------------------------------------------------------------------------

/// keys: plain identifiers, keys needing bracket notation (space, quote, dot, dash, leading
/// digit, empty, backslash, control characters), non-ASCII keys, keyword-like keys
pub const JSON_KEYS: &[&str] = &[
    "a", "b", "c", "id", "name", "foo", "_x", "foo_bar1", "X9", "__loc__",
    "if", "then", "else", "elif", "end", "and", "or", "not", "null", "true", "false", "as", "def",
    "reduce", "foreach", "try", "catch", "label", "import", "include", "input", "length", "keys",
    "with space", " lead", "trail ", "foo-bar", "-x", "foo.bar", ".", "..", "1abc", "123", "0", "",
    "a\"b", "\"", "back\\slash", "\\", "new\nline", "tab\there", "cr\rx", "$x", "@base64", "[0]", "a[0]", "a,b", "a:b",
    "{", "}", "x'y", "a|b", "a/b", "#c", "?", "a?", "\u{e9}", "caf\u{e9}", "na\u{ef}ve", "\u{65e5}\u{672c}", "\u{3ba}\u{3bb}",
    "a-", "x--y", "a\u{663}", "\u{663}a", "\u{2167}", "\u{1F600}", "a\u{1F600}", "\u{df}9", "a\u{300}", "\u{aa}", "\u{2160}x", "x\u{b2}",
];

pub const JSON_STRS: &[&str] = &[
    "", "a", "abc", "hello world", "x y", "{", "}", "[", "]", "[1,2]", "{\"k\":1}", ",", ":", "a,b", "a:b", "\"", "\"q\"", "\\",
    "\\\"", "tab\t", "nl\n", "\u{e9}", "\u{65e5}\u{672c}\u{8a9e}", "\u{1F600}", "null", "true", "12", "-", " ", "  ", "/", "</x>",
    "end\\", "a\\\\b",
];

pub const NUMS: &[i64] = &[0, 1, 2, 7, 10, 42, 100, -1, -3, -17, 65536, 999999];

// ---------------------------------------------------------------------------------------
// JSON generator
// ---------------------------------------------------------------------------------------

pub struct Gen<'a> {
    pub r: &'a mut Rng,
    pub budget: usize,
}

impl Gen<'_> {
    fn scalar(&mut self, strs: &[&str]) -> V {
        match self.r.below(10) {
            0 => V::Null,
            1 => V::Bool(self.r.coin()),
            2..=4 => V::Num(*self.r.pick(NUMS)),
            _ => V::Str((*self.r.pick(strs)).to_string()),
        }
    }
    pub fn value(&mut self, depth: usize, keys: &[&str], strs: &[&str]) -> V {
        if self.budget > 0 {
            self.budget -= 1;
        }
        let leaf = depth == 0 || self.budget == 0 || self.r.chance(2, 5);
        if leaf {
            return self.scalar(strs);
        }
        let n = match self.r.below(8) {
            0 => 0,
            1 | 2 => 1,
            3 | 4 => 2,
            5 => 3,
            6 => self.r.range(4, 6) as usize,
            _ => self.r.range(2, 9) as usize,
        };
        if self.r.coin() {
            let mut a = vec![];
            for _ in 0..n {
                a.push(self.value(depth - 1, keys, strs));
            }
            V::Arr(a)
        } else {
            let mut kv: Vec<(String, V)> = vec![];
            for _ in 0..n {
                let k = (*self.r.pick(keys)).to_string();
                if kv.iter().any(|(k2, _)| *k2 == k) {
                    continue; // no duplicate keys
                }
                let v = self.value(depth - 1, keys, strs);
                kv.push((k, v));
            }
            V::Obj(kv)
        }
    }
}

const WS: &[&str] = &["", "", "", " ", " ", "\n", "\t", "\r", "\r\n", "  ", "\n  ", " \n", "\n\n", "\r\r", " \t ", "\n\t\t"];

fn ws(r: &mut Rng, dense: bool, out: &mut Vec<u8>) {
    if dense {
        return;
    }
    out.extend_from_slice(r.pick(WS).as_bytes());
}

/// one JSON string literal for `s` with a random choice among the equivalent spellings
pub fn json_string(r: &mut Rng, s: &str, out: &mut Vec<u8>) {
    out.push(b'"');
    for c in s.chars() {
        let u = c as u32;
        let esc_u = |out: &mut Vec<u8>, upper: bool| {
            let mut buf = [0u16; 2];
            for w in c.encode_utf16(&mut buf) {
                let h = if upper { format!("\\u{w:04X}") } else { format!("\\u{w:04x}") };
                out.extend_from_slice(h.as_bytes());
            }
        };
        match c {
            '"' => out.extend_from_slice(if r.chance(1, 6) { b"\\u0022" } else { b"\\\"" }),
            '\\' => out.extend_from_slice(if r.chance(1, 6) { b"\\u005c" } else { b"\\\\" }),
            '\n' => out.extend_from_slice(if r.chance(1, 6) { b"\\u000a" } else { b"\\n" }),
            '\t' => out.extend_from_slice(if r.chance(1, 6) { b"\\u0009" } else { b"\\t" }),
            '\r' => out.extend_from_slice(b"\\r"),
            '/' if r.chance(1, 3) => out.extend_from_slice(b"\\/"),
            _ if u < 0x20 => esc_u(out, false),
            _ if r.chance(1, 12) => {
                let up = r.coin();
                esc_u(out, up)
            }
            _ => {
                let mut b = [0u8; 4];
                out.extend_from_slice(c.encode_utf8(&mut b).as_bytes());
            }
        }
    }
    out.push(b'"');
}

fn render_json_node(r: &mut Rng, v: &V, dense: bool, out: &mut Vec<u8>) -> T {
    let s = out.len() as i64;
    let n = match v {
        V::Null => {
            out.extend_from_slice(b"null");
            TN::Null
        }
        V::Bool(b) => {
            out.extend_from_slice(if *b { b"true" } else { b"false" });
            TN::Bool(*b)
        }
        V::Num(i) => {
            out.extend_from_slice(i.to_string().as_bytes());
            TN::Num(*i)
        }
        V::Str(x) => {
            json_string(r, x, out);
            TN::Str(x.clone())
        }
        V::Arr(a) => {
            out.push(b'[');
            let mut items = vec![];
            for (i, x) in a.iter().enumerate() {
                if i > 0 {
                    ws(r, dense, out);
                    out.push(b',');
                }
                ws(r, dense, out);
                items.push(render_json_node(r, x, dense, out));
            }
            ws(r, dense, out);
            out.push(b']');
            TN::Arr(items)
        }
        V::Obj(kv) => {
            out.push(b'{');
            let mut items = vec![];
            for (i, (k, x)) in kv.iter().enumerate() {
                if i > 0 {
                    ws(r, dense, out);
                    out.push(b',');
                }
                ws(r, dense, out);
                let ks = out.len() as i64;
                json_string(r, k, out);
                let ke = out.len() as i64;
                ws(r, dense, out);
                out.push(b':');
                ws(r, dense, out);
                let t = render_json_node(r, x, dense, out);
                items.push((KeyT { s: ks, e: ke, k: k.clone() }, t));
            }
            ws(r, dense, out);
            out.push(b'}');
            TN::Obj(items)
        }
    };
    T { s, e: out.len() as i64, n }
}

/// render `v` as a JSON document (leading / trailing whitespace, random whitespace between
/// tokens unless `dense`) and return the text with the tree of recorded spans
pub fn render_json(r: &mut Rng, v: &V, dense: bool) -> (Vec<u8>, T) {
    let mut out = vec![];
    if !dense || r.chance(1, 4) {
        out.extend_from_slice(r.pick(WS).as_bytes());
    }
    let t = render_json_node(r, v, dense, &mut out);
    if !dense || r.chance(1, 4) {
        out.extend_from_slice(r.pick(WS).as_bytes());
    }
    (out, t)
}

/// independent reader: the whole text and every token's span must parse (serde_json) to the
/// intended values
pub fn self_check_json(text: &[u8], t: &T) -> Result<(), String> {
    let whole: Value = serde_json::from_slice(text).map_err(|e| format!("document does not parse: {e}"))?;
    if whole != t.value().to_serde() {
        return Err("document parses to a different value".into());
    }
    let mut toks = vec![];
    tokens(t, &mut toks);
    for k in &toks {
        let sl = &text[k.s as usize..k.e as usize];
        let v: Value = serde_json::from_slice(sl).map_err(|e| format!("token [{},{}) does not parse: {e}", k.s, k.e))?;
        if v != k.own {
            return Err(format!("token [{},{}) parses to a different value", k.s, k.e));
        }
        if k.s > 0 && !k.key && !k.cont && matches!(text[k.s as usize - 1], b'0'..=b'9' | b'-' | b'a'..=b'z') {
            return Err("token not delimited".into());
        }
    }
    Ok(())
}

// ---------------------------------------------------------------------------------------
// YAML generator: block and flow collections, plain / single / double quoted scalars and
// keys, implicit nulls, comments, multi-document streams.  Only constructs whose YAML 1.2
// core-schema meaning is beyond doubt.
// ---------------------------------------------------------------------------------------

pub const YAML_KEYS: &[&str] = &[
    "a", "b", "c", "id", "name", "foo", "_x", "foo_bar1", "X9", "if", "and", "or", "not", "then", "end", "null", "true", "false",
    "with space", "foo-bar", "foo.bar", "a-b-c", "a-", "x--y", "1abc", "123", "", "a\"b", "x'y", "back\\slash", "tab\there", "\u{e9}", "caf\u{e9}",
    "\u{65e5}\u{672c}", "a\u{663}", "\u{1F600}", "k:v", "k: v", "#c", "a #b", "[0]", "{", "-", "- x", "~", "yes", "No",
];

pub const YAML_STRS: &[&str] = &[
    "a", "abc", "hello world", "x y z", "foo-bar", "v1.2", "", " ", "null", "true", "12", "~", "a: b", "- x", "#h", "a #b", "[1, 2]", "{k: v}",
    ",", ":", "it's", "say \"hi\"", "back\\slash", "tab\there", "nl\nx", "\u{e9}t\u{e9}", "\u{65e5}\u{672c}\u{8a9e}", "\u{1F600}", "&a", "*a", "!t", "|", ">", "%x", "@x", "`x",
];

fn yaml_reserved(s: &str) -> bool {
    let l = s.to_ascii_lowercase();
    matches!(l.as_str(), "null" | "true" | "false" | "yes" | "no" | "on" | "off" | "y" | "n" | "~" | "nan" | "inf" | "")
}

/// may `s` be written as a plain scalar (in any context, also as a key and in flow)?
/// deliberately conservative
fn yaml_plain_ok(s: &str) -> bool {
    if yaml_reserved(s) {
        return false;
    }
    let cs: Vec<char> = s.chars().collect();
    let first = cs[0];
    if !(first.is_alphabetic() || first == '_') {
        return false;
    }
    if *cs.last().unwrap() == ' ' {
        return false;
    }
    for (i, &c) in cs.iter().enumerate() {
        let ok = c.is_alphanumeric() || c == '_' || c == '-' || c == '.' || (c == ' ' && cs[i - 1] != ' ');
        if !ok {
            return false;
        }
    }
    true
}

#[derive(Clone, Copy, PartialEq)]
enum Ctx {
    Block,
    Flow,
    Key,
}

pub struct YamlOut<'a> {
    pub r: &'a mut Rng,
    pub out: Vec<u8>,
    pub w: usize,
    pub zero_indent_seq: bool,
    pub comments: bool,
}

impl YamlOut<'_> {
    fn put(&mut self, s: &str) {
        self.out.extend_from_slice(s.as_bytes());
    }
    fn pos(&self) -> i64 {
        self.out.len() as i64
    }
    fn indent(&mut self, n: usize) {
        for _ in 0..n {
            self.out.push(b' ');
        }
    }
    /// a string scalar token (also used for keys); returns its span
    fn string_token(&mut self, s: &str, ctx: Ctx) -> (i64, i64) {
        let st = self.pos();
        // plain scalars with interior spaces only in block values
        let plain = yaml_plain_ok(s) && (ctx == Ctx::Block || !s.contains(' ') || ctx == Ctx::Key && self.r.coin());
        let has_ctl = s.chars().any(|c| (c as u32) < 0x20);
        let style = if plain && self.r.chance(3, 5) {
            0
        } else if !has_ctl && self.r.coin() {
            1
        } else {
            2
        };
        match style {
            0 => self.put(s),
            1 => {
                let q = format!("'{}'", s.replace('\'', "''"));
                self.put(&q);
            }
            _ => {
                let mut o = String::from("\"");
                for c in s.chars() {
                    match c {
                        '"' => o.push_str("\\\""),
                        '\\' => o.push_str("\\\\"),
                        '\n' => o.push_str("\\n"),
                        '\t' => o.push_str("\\t"),
                        '\r' => o.push_str("\\r"),
                        _ if (c as u32) >= 0x80 && (c as u32) < 0x10000 && self.r.chance(1, 8) => {
                            o.push_str(&format!("\\u{:04X}", c as u32))
                        }
                        _ => o.push(c),
                    }
                }
                o.push('"');
                self.put(&o);
            }
        }
        (st, self.pos())
    }
    /// a scalar value token; None for an implicit null (nothing written)
    fn scalar(&mut self, v: &V, ctx: Ctx, allow_implicit: bool) -> T {
        let st = self.pos();
        match v {
            V::Null => {
                if allow_implicit && self.r.chance(1, 3) {
                    return T::virt(TN::Null);
                }
                let t = if self.r.coin() { "null" } else { "~" };
                self.put(t);
                T { s: st, e: self.pos(), n: TN::Null }
            }
            V::Bool(b) => {
                self.put(if *b { "true" } else { "false" });
                T { s: st, e: self.pos(), n: TN::Bool(*b) }
            }
            V::Num(i) => {
                self.put(&i.to_string());
                T { s: st, e: self.pos(), n: TN::Num(*i) }
            }
            V::Str(s) => {
                let (a, b) = self.string_token(s, ctx);
                T { s: a, e: b, n: TN::Str(s.clone()) }
            }
            _ => unreachable!(),
        }
    }
    fn flow(&mut self, v: &V) -> T {
        let st = self.pos();
        let sp = self.r.chance(1, 3);
        match v {
            V::Arr(a) => {
                self.put("[");
                let mut items = vec![];
                for (i, x) in a.iter().enumerate() {
                    if i > 0 {
                        self.put(if sp { " , " } else { ", " });
                    } else if sp {
                        self.put(" ");
                    }
                    items.push(self.flow(x));
                }
                if sp && !a.is_empty() {
                    self.put(" ");
                }
                self.put("]");
                T { s: st, e: self.pos(), n: TN::Arr(items) }
            }
            V::Obj(kv) => {
                self.put("{");
                let mut items = vec![];
                for (i, (k, x)) in kv.iter().enumerate() {
                    if i > 0 {
                        self.put(if sp { " , " } else { ", " });
                    } else if sp {
                        self.put(" ");
                    }
                    let (ks, ke) = self.string_token(k, Ctx::Flow);
                    self.put(": ");
                    let t = self.flow(x);
                    items.push((KeyT { s: ks, e: ke, k: k.clone() }, t));
                }
                if sp && !kv.is_empty() {
                    self.put(" ");
                }
                self.put("}");
                T { s: st, e: self.pos(), n: TN::Obj(items) }
            }
            _ => self.scalar(v, Ctx::Flow, false),
        }
    }
    fn eol(&mut self, after_token: bool) {
        if self.comments && after_token && self.r.chance(1, 8) {
            self.put(" # c: [x, 'y");
        }
        self.put("\n");
    }
    fn between(&mut self, ind: usize) {
        if self.comments && self.r.chance(1, 12) {
            self.put("\n");
        }
        if self.comments && self.r.chance(1, 12) {
            self.indent(ind);
            self.put("# note - k: v\n");
        }
    }
    fn use_flow(&mut self, v: &V) -> bool {
        match v {
            V::Arr(a) => a.is_empty() || self.r.chance(1, 4),
            V::Obj(kv) => kv.is_empty() || self.r.chance(1, 4),
            _ => false,
        }
    }
    /// value after `key:` or `-` (the indicator has been written, no space yet); `ind` is the
    /// indentation of the enclosing collection's entries; ends with a line break
    fn after_indicator(&mut self, v: &V, ind: usize, in_seq: bool) -> T {
        match v {
            V::Arr(_) | V::Obj(_) if self.use_flow(v) => {
                self.put(" ");
                let t = self.flow(v);
                self.eol(true);
                t
            }
            V::Obj(kv) => {
                if in_seq && self.r.chance(2, 3) {
                    self.put(" ");
                    self.block_map(kv, ind + 2, true)
                } else {
                    self.eol(false);
                    self.block_map(kv, ind + self.w, false)
                }
            }
            V::Arr(a) => {
                if in_seq && self.r.chance(1, 2) {
                    self.put(" ");
                    self.block_seq(a, ind + 2, true)
                } else {
                    self.eol(false);
                    let i2 = if !in_seq && self.zero_indent_seq { ind } else { ind + self.w };
                    self.block_seq(a, i2, false)
                }
            }
            _ => {
                let p0 = self.out.len();
                self.put(" ");
                let t = self.scalar(v, Ctx::Block, true);
                if t.s < 0 {
                    self.out.truncate(p0); // implicit null: nothing after the indicator
                    self.put("\n");
                } else {
                    self.eol(true);
                }
                t
            }
        }
    }
    fn block_map(&mut self, kv: &[(String, V)], ind: usize, first_inline: bool) -> T {
        let mut items = vec![];
        for (i, (k, x)) in kv.iter().enumerate() {
            if !(i == 0 && first_inline) {
                self.between(ind);
                self.indent(ind);
            }
            let (ks, ke) = self.string_token(k, Ctx::Key);
            self.put(":");
            let t = self.after_indicator(x, ind, false);
            items.push((KeyT { s: ks, e: ke, k: k.clone() }, t));
        }
        T::virt(TN::Obj(items))
    }
    fn block_seq(&mut self, a: &[V], ind: usize, first_inline: bool) -> T {
        let mut items = vec![];
        for (i, x) in a.iter().enumerate() {
            if !(i == 0 && first_inline) {
                self.between(ind);
                self.indent(ind);
            }
            self.put("-");
            items.push(self.after_indicator(x, ind, true));
        }
        T::virt(TN::Arr(items))
    }
    /// one document at the start of a line
    fn document(&mut self, v: &V) -> T {
        match v {
            V::Arr(_) | V::Obj(_) if self.use_flow(v) => {
                let t = self.flow(v);
                self.eol(true);
                t
            }
            V::Obj(kv) => self.block_map(kv, 0, false),
            V::Arr(a) => self.block_seq(a, 0, false),
            _ => {
                let t = self.scalar(v, Ctx::Block, false);
                self.eol(true);
                t
            }
        }
    }
}

/// render documents as one YAML stream; the tree's root is the virtual array of documents
pub fn render_yaml(r: &mut Rng, docs: &[V]) -> (Vec<u8>, T) {
    let w = *r.pick(&[2usize, 2, 2, 3, 4]);
    let zi = r.chance(1, 3);
    let comments = r.chance(1, 2);
    let first_marker = docs.len() > 1 && r.coin() || r.chance(1, 5);
    let mut y = YamlOut { r, out: vec![], w, zero_indent_seq: zi, comments };
    let mut items = vec![];
    for (i, d) in docs.iter().enumerate() {
        if i > 0 || first_marker {
            y.put("---\n");
        }
        items.push(y.document(d));
        if i + 1 < docs.len() && y.r.chance(1, 6) {
            y.put("...\n");
        }
    }
    let out = std::mem::take(&mut y.out);
    (out, T::virt(TN::Arr(items)))
}

/// second reader for YAML: the real loader's JSON rendering of the stream must be the
/// intended array of documents (the loader itself is the subject of C14); a case that fails
/// is dropped and counted, never reported
pub fn self_check_yaml(text: &[u8], t: &T) -> Result<(), String> {
    let r = guarded(|| -> Result<(), String> {
        let index = YamlIndex::build(text).map_err(|e| format!("build: {e}"))?;
        let js = index.root(text).to_json();
        let got: Value = serde_json::from_str(&js).map_err(|e| format!("to_json not JSON: {e}"))?;
        if got != t.value().to_serde() {
            return Err(format!("loads as {js}"));
        }
        Ok(())
    });
    match r {
        Ok(x) => x,
        Err(p) => Err(format!("panic: {p}")),
    }
}

pub fn gen_yaml_docs(r: &mut Rng, quick_small: bool) -> Vec<V> {
    let nd = match r.below(6) {
        0 | 1 | 2 => 1,
        3 | 4 => 2,
        _ => 3,
    };
    let mut docs = vec![];
    for _ in 0..nd {
        let budget = if quick_small { r.range(2, 8) } else { r.range(3, 16) } as usize;
        let mut g = Gen { r, budget };
        let mut v = g.value(3, YAML_KEYS, YAML_STRS);
        // a scalar document only sometimes: prefer collections
        if !matches!(v, V::Arr(_) | V::Obj(_)) && g.r.chance(3, 4) {
            let mut g2 = Gen { r: g.r, budget: 6 };
            v = V::Obj(vec![("k".to_string(), v), ("list".to_string(), g2.value(1, YAML_KEYS, YAML_STRS))]);
        }
        docs.push(v);
    }
    docs
}

// ---------------------------------------------------------------------------------------
// the real evaluators
// ---------------------------------------------------------------------------------------

fn one(mut outs: Vec<OwnedValue>, err: Option<String>) -> Value {
    if let Some(e) = err {
        return err_val(&e);
    }
    if outs.len() != 1 {
        return err_val(&format!("{} outputs", outs.len()));
    }
    enc_owned(&outs.pop().unwrap())
}

pub fn parse_expr(text: &str, mode: ParserMode) -> Result<Expr, String> {
    match guarded(|| jq::parse_with_mode(text, mode)) {
        Ok(Ok(e)) => Ok(e),
        Ok(Err(e)) => Err(format!("parse error: {e:?}")),
        Err(p) => Err(format!("PANIC in parser: {p}")),
    }
}

fn generic_outcome<V2: succinctly::jq::document::DocumentValue>(res: GenericResult<V2>) -> Value {
    match res {
        GenericResult::LazySeq(seq) => match seq.materialize_atomic() {
            Ok(v) => enc_owned(&v),
            Err(_) => err_val("error in lazy sequence"),
        },
        other => {
            let err = match &other {
                GenericResult::Error(e) => Some(format!("error: {e}")),
                GenericResult::Break(_) => Some("break".to_string()),
                GenericResult::Halt(_) => Some("halt".to_string()),
                GenericResult::Partial(_, _) => Some("partial".to_string()),
                _ => None,
            };
            one(other.collect_owned(), err)
        }
    }
}

/// library evaluator `jq::eval` on a JSON document
pub fn eval_full_json(expr_text: &str, json_text: &[u8]) -> Value {
    let expr = match parse_expr(expr_text, ParserMode::Jq) {
        Ok(e) => e,
        Err(e) => return err_val(&e),
    };
    guarded(|| {
        let index = JsonIndex::build(json_text);
        let cursor = index.root(json_text);
        let res: QueryResult<Vec<u64>> = jq::eval::<Vec<u64>, JqSemantics>(&expr, cursor);
        let err = match &res {
            QueryResult::Error(e) => Some(format!("error: {e}")),
            QueryResult::Break(_) => Some("break".to_string()),
            QueryResult::Halt(_) => Some("halt".to_string()),
            QueryResult::Partial(_, _) => Some("partial".to_string()),
            _ => None,
        };
        one(res.collect_owned(), err)
    })
    .unwrap_or_else(|p| err_val(&format!("PANIC: {p}")))
}

/// generic (cursor) evaluator used by the CLI, on a JSON document; supports at_offset / at_position
pub fn eval_generic_json(expr_text: &str, json_text: &[u8]) -> Value {
    let expr = match parse_expr(expr_text, ParserMode::Jq) {
        Ok(e) => e,
        Err(e) => return err_val(&e),
    };
    guarded(|| {
        let index = JsonIndex::build(json_text);
        let cursor = index.root(json_text);
        generic_outcome(eval_generic::eval_with_cursor(&expr, cursor))
    })
    .unwrap_or_else(|p| err_val(&format!("PANIC: {p}")))
}

/// generic evaluator with yq semantics on the root of a YAML stream (= the array of documents)
pub fn eval_generic_yaml(expr_text: &str, yaml_text: &[u8]) -> Value {
    let expr = match parse_expr(expr_text, ParserMode::Yq) {
        Ok(e) => e,
        Err(e) => return err_val(&e),
    };
    guarded(|| {
        let index = match YamlIndex::build(yaml_text) {
            Ok(i) => i,
            Err(e) => return err_val(&format!("build: {e}")),
        };
        let root = index.root(yaml_text);
        generic_outcome(eval_generic::eval_with_cursor_using::<YqSemantics, _>(&expr, root))
    })
    .unwrap_or_else(|p| err_val(&format!("PANIC: {p}")))
}

/// second route for YAML: the documents collected into a JSON array (`to_json` of the root),
/// evaluated by the library evaluator `jq::eval` with yq semantics
pub fn eval_full_yaml_as_array(expr_text: &str, yaml_text: &[u8]) -> Value {
    let expr = match parse_expr(expr_text, ParserMode::Yq) {
        Ok(e) => e,
        Err(e) => return err_val(&e),
    };
    guarded(|| {
        let index = match YamlIndex::build(yaml_text) {
            Ok(i) => i,
            Err(e) => return err_val(&format!("build: {e}")),
        };
        let js = index.root(yaml_text).to_json();
        let jb = js.as_bytes();
        let jindex = JsonIndex::build(jb);
        let cursor = jindex.root(jb);
        let res: QueryResult<Vec<u64>> = jq::eval::<Vec<u64>, YqSemantics>(&expr, cursor);
        let err = match &res {
            QueryResult::Error(e) => Some(format!("error: {e}")),
            QueryResult::Break(_) => Some("break".to_string()),
            QueryResult::Halt(_) => Some("halt".to_string()),
            QueryResult::Partial(_, _) => Some("partial".to_string()),
            _ => None,
        };
        one(res.collect_owned(), err)
    })
    .unwrap_or_else(|p| err_val(&format!("PANIC: {p}")))
}
