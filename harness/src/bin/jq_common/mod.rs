//! Shared helpers of the jq checks C23 / C24 / C25 (see spec/JqCore.tla for the value and AST
//! encodings): value model with duplicate keys and opaque number atoms, program ASTs with a
//! fully parenthesised renderer, seeded generators (core tier = has spec semantics, opaque tier =
//! templates over the whole builtin table), drivers for BOTH real evaluators, and the
//! `Expr -> spec AST` converter used by the C24 calibration stage.
#![allow(dead_code)]

use succinctly::jq::eval_generic::{self, GenericResult};
use succinctly::jq::{self, Control, EvalError, Expr, JqSemantics, OwnedValue, QueryResult};
use succinctly::json::JsonIndex;
use verif_harness::*;

// ---------------------------------------------------------------------------------------
// values
// ---------------------------------------------------------------------------------------

#[derive(Clone, Debug, PartialEq)]
pub enum V {
    Null,
    Bool(bool),
    /// number by its literal spelling (the harness never computes with it)
    Num(String),
    Str(String),
    Arr(Vec<V>),
    /// ordered, duplicates allowed (inputs only)
    Obj(Vec<(String, V)>),
}

pub const BIG: f64 = 1073741824.0;

pub fn cps(s: &str) -> Value {
    Value::Array(s.chars().map(|c| json!(c as u32)).collect())
}

/// Encode a number (printed spelling + f64 value) the way JqCore.tla expects it.
pub fn enc_num(text: &str, x: f64) -> Value {
    let canon_int = x.is_finite() && x.fract() == 0.0 && x.abs() < BIG && {
        let i = x as i64;
        i.to_string() == text
    };
    if canon_int {
        return json!({"t":"num","n": x as i64, "fr": 0, "a": []});
    }
    let (n, fr): (i64, i64) = if x.is_nan() {
        (0, 0)
    } else if x.abs() >= BIG {
        // rank by exponent and the top 10 mantissa bits (monotone in |x|)
        let bits = x.abs().to_bits();
        let exp = ((bits >> 52) & 0x7ff) as i64 - 1023; // >= 30
        let top = ((bits >> 42) & 0x3ff) as i64;
        let mag = 1 + (exp - 30) * 1024 + top; // 1 ..= ~1.02M
        if x > 0.0 {
            (BIG as i64, mag)
        } else {
            (-(BIG as i64), (1 << 21) - mag)
        }
    } else {
        let fl = x.floor();
        let frac = x - fl;
        (fl as i64, if frac == 0.0 { 0 } else { 1 + (frac * 1048576.0) as i64 })
    };
    json!({"t":"num","n": n, "fr": fr, "a": cps(text)})
}

/// All (n, fr, exact f64 bits) triples of atoms in an encoded value: used to detect rank collisions.
pub fn collect_atoms(v: &Value, out: &mut Vec<(i64, i64, String)>) {
    match v {
        Value::Object(m) => {
            if m.get("t").and_then(|t| t.as_str()) == Some("num") {
                let a = m["a"].as_array().unwrap();
                if !a.is_empty() {
                    let text: String = a.iter().map(|c| char::from_u32(c.as_u64().unwrap() as u32).unwrap()).collect();
                    out.push((m["n"].as_i64().unwrap(), m["fr"].as_i64().unwrap(), text));
                }
            }
            for (_, x) in m {
                collect_atoms(x, out);
            }
        }
        Value::Array(a) => {
            for x in a {
                collect_atoms(x, out);
            }
        }
        _ => {}
    }
}

/// true when two atoms with different f64 values share (n, fr) -- the spec would wrongly equate them
pub fn atom_collision(vs: &[&Value]) -> bool {
    let mut atoms = vec![];
    for v in vs {
        collect_atoms(v, &mut atoms);
    }
    for i in 0..atoms.len() {
        for j in i + 1..atoms.len() {
            if atoms[i].0 == atoms[j].0 && atoms[i].1 == atoms[j].1 {
                let a: f64 = atoms[i].2.parse().unwrap_or(f64::NAN);
                let b: f64 = atoms[j].2.parse().unwrap_or(f64::NAN);
                if a != b {
                    return true;
                }
            }
        }
    }
    false
}

impl V {
    pub fn int(i: i64) -> V {
        V::Num(i.to_string())
    }
    pub fn s(x: &str) -> V {
        V::Str(x.to_string())
    }
    /// JSON text (also valid jq literal syntax for scalars)
    pub fn text(&self) -> String {
        match self {
            V::Null => "null".into(),
            V::Bool(b) => b.to_string(),
            V::Num(t) => t.clone(),
            V::Str(s) => serde_json::to_string(s).unwrap(),
            V::Arr(a) => format!("[{}]", a.iter().map(|x| x.text()).collect::<Vec<_>>().join(",")),
            V::Obj(kv) => format!(
                "{{{}}}",
                kv.iter().map(|(k, v)| format!("{}:{}", serde_json::to_string(k).unwrap(), v.text())).collect::<Vec<_>>().join(",")
            ),
        }
    }
    /// JSON text with a space after every `,` and `:` -- used when a value is spliced into PROGRAM
    /// text: `,"é"` (comma immediately followed by a quote and a non-ASCII character) makes
    /// jq::parse panic in Parser::peek_str (known finding of C19, not this family's business)
    pub fn text_spaced(&self) -> String {
        match self {
            V::Arr(a) => format!("[{}]", a.iter().map(|x| x.text_spaced()).collect::<Vec<_>>().join(", ")),
            V::Obj(kv) => format!(
                "{{{}}}",
                kv.iter().map(|(k, v)| format!("{}: {}", serde_json::to_string(k).unwrap(), v.text_spaced())).collect::<Vec<_>>().join(", ")
            ),
            other => other.text(),
        }
    }
    pub fn enc(&self) -> Value {
        match self {
            V::Null => json!({"t":"null"}),
            V::Bool(b) => json!({"t":"bool","b":b}),
            V::Num(t) => enc_num(t, t.parse::<f64>().unwrap()),
            V::Str(s) => json!({"t":"str","cp":cps(s)}),
            V::Arr(a) => json!({"t":"arr","v": a.iter().map(|x| x.enc()).collect::<Vec<_>>()}),
            V::Obj(kv) => json!({"t":"obj","kv": kv.iter().map(|(k, v)| json!([cps(k), v.enc()])).collect::<Vec<_>>()}),
        }
    }
    pub fn nodes(&self) -> usize {
        match self {
            V::Arr(a) => 1 + a.iter().map(|x| x.nodes()).sum::<usize>(),
            V::Obj(kv) => 1 + kv.iter().map(|(_, x)| x.nodes()).sum::<usize>(),
            _ => 1,
        }
    }
    /// jq's view of a document with repeated keys: first position, last value
    pub fn collapsed(&self) -> V {
        match self {
            V::Arr(a) => V::Arr(a.iter().map(|x| x.collapsed()).collect()),
            V::Obj(kv) => {
                let mut out: Vec<(String, V)> = vec![];
                for (k, v) in kv {
                    let c = v.collapsed();
                    if let Some(slot) = out.iter_mut().find(|(k2, _)| k2 == k) {
                        slot.1 = c;
                    } else {
                        out.push((k.clone(), c));
                    }
                }
                V::Obj(out)
            }
            other => other.clone(),
        }
    }
    pub fn has_dup_keys(&self) -> bool {
        match self {
            V::Arr(a) => a.iter().any(|x| x.has_dup_keys()),
            V::Obj(kv) => {
                kv.iter().enumerate().any(|(i, (k, v))| v.has_dup_keys() || kv[..i].iter().any(|(k2, _)| k2 == k))
            }
            _ => false,
        }
    }
}

/// Parse JSON text into V keeping number spellings, key order and duplicate keys.
pub fn parse_v(s: &str) -> Option<V> {
    let b = s.as_bytes();
    let mut i = 0;
    let v = parse_v_at(b, &mut i)?;
    skip_ws(b, &mut i);
    if i == b.len() {
        Some(v)
    } else {
        None
    }
}

fn skip_ws(b: &[u8], i: &mut usize) {
    while *i < b.len() && (b[*i] as char).is_ascii_whitespace() {
        *i += 1;
    }
}

fn parse_str_at(b: &[u8], i: &mut usize) -> Option<String> {
    let start = *i;
    *i += 1;
    while *i < b.len() && b[*i] != b'"' {
        if b[*i] == b'\\' {
            *i += 1;
        }
        *i += 1;
    }
    if *i >= b.len() {
        return None;
    }
    *i += 1;
    serde_json::from_slice::<String>(&b[start..*i]).ok()
}

fn parse_v_at(b: &[u8], i: &mut usize) -> Option<V> {
    skip_ws(b, i);
    if *i >= b.len() {
        return None;
    }
    match b[*i] {
        b'n' if b[*i..].starts_with(b"null") => {
            *i += 4;
            Some(V::Null)
        }
        b't' if b[*i..].starts_with(b"true") => {
            *i += 4;
            Some(V::Bool(true))
        }
        b'f' if b[*i..].starts_with(b"false") => {
            *i += 5;
            Some(V::Bool(false))
        }
        b'"' => parse_str_at(b, i).map(V::Str),
        b'[' => {
            *i += 1;
            let mut a = vec![];
            skip_ws(b, i);
            if *i < b.len() && b[*i] == b']' {
                *i += 1;
                return Some(V::Arr(a));
            }
            loop {
                a.push(parse_v_at(b, i)?);
                skip_ws(b, i);
                if *i >= b.len() {
                    return None;
                }
                if b[*i] == b',' {
                    *i += 1;
                } else if b[*i] == b']' {
                    *i += 1;
                    return Some(V::Arr(a));
                } else {
                    return None;
                }
            }
        }
        b'{' => {
            *i += 1;
            let mut kv = vec![];
            skip_ws(b, i);
            if *i < b.len() && b[*i] == b'}' {
                *i += 1;
                return Some(V::Obj(kv));
            }
            loop {
                skip_ws(b, i);
                if *i >= b.len() || b[*i] != b'"' {
                    return None;
                }
                let k = parse_str_at(b, i)?;
                skip_ws(b, i);
                if *i >= b.len() || b[*i] != b':' {
                    return None;
                }
                *i += 1;
                let v = parse_v_at(b, i)?;
                kv.push((k, v));
                skip_ws(b, i);
                if *i >= b.len() {
                    return None;
                }
                if b[*i] == b',' {
                    *i += 1;
                } else if b[*i] == b'}' {
                    *i += 1;
                    return Some(V::Obj(kv));
                } else {
                    return None;
                }
            }
        }
        c if c == b'-' || c.is_ascii_digit() => {
            let st = *i;
            while *i < b.len() && (b[*i].is_ascii_digit() || matches!(b[*i], b'-' | b'+' | b'.' | b'e' | b'E')) {
                *i += 1;
            }
            let t = std::str::from_utf8(&b[st..*i]).ok()?;
            t.parse::<f64>().ok()?;
            Some(V::Num(t.to_string()))
        }
        _ => None,
    }
}

/// jq 1.7.1 prints a number literal that passes through untouched in a canonical spelling
/// (decNumber); for the shapes below the canonical spelling is the literal itself, so the spec
/// can predict the output.  Anything else is usable for evaluator agreement only.
pub fn num_spelling_is_canonical(t: &str) -> bool {
    let u = t.strip_prefix('-').unwrap_or(t);
    if u.is_empty() || u.contains(['e', 'E', '+']) {
        return false;
    }
    let (ip, fp) = match u.split_once('.') {
        Some((a, b)) => (a, Some(b)),
        None => (u, None),
    };
    if ip.is_empty() || !ip.bytes().all(|c| c.is_ascii_digit()) || (ip.len() > 1 && ip.starts_with('0')) {
        return false;
    }
    if ip.len() > 17 {
        return false;
    }
    if t == "-0" {
        return false;
    }
    match fp {
        None => ip.len() <= 15 || t.parse::<f64>().map(|x| x.abs() < 9.0e15).unwrap_or(false),
        Some(f) => !f.is_empty() && f.bytes().all(|c| c.is_ascii_digit()) && ip.len() + f.len() <= 15 && !f.ends_with('0'),
    }
}

pub fn all_nums_canonical(v: &V) -> bool {
    match v {
        V::Num(t) => num_spelling_is_canonical(t),
        V::Arr(a) => a.iter().all(all_nums_canonical),
        V::Obj(kv) => kv.iter().all(|(_, x)| all_nums_canonical(x)),
        _ => true,
    }
}

pub fn own_to_enc(o: &OwnedValue) -> Value {
    match o {
        OwnedValue::Null => json!({"t":"null"}),
        OwnedValue::Bool(b) => json!({"t":"bool","b":b}),
        OwnedValue::Int(i) => enc_num(&o.to_json(), *i as f64),
        OwnedValue::Float(f) => enc_num(&o.to_json(), *f),
        OwnedValue::NumberLiteral(r, _) => {
            let x = match r {
                jq::NumberRepr::Int(i) => *i as f64,
                jq::NumberRepr::Float(f) => *f,
            };
            enc_num(&o.to_json(), x)
        }
        OwnedValue::String(s) => json!({"t":"str","cp":cps(s)}),
        OwnedValue::Array(a) => json!({"t":"arr","v": a.iter().map(own_to_enc).collect::<Vec<_>>()}),
        OwnedValue::Object(m) => json!({"t":"obj","kv": m.iter().map(|(k, v)| json!([cps(k), own_to_enc(v)])).collect::<Vec<_>>()}),
    }
}

// ---------------------------------------------------------------------------------------
// program ASTs
// ---------------------------------------------------------------------------------------

#[derive(Clone, Debug)]
pub enum Ast {
    Id,
    Field(String),
    Idx(Box<Ast>, Box<Ast>),
    Iter,
    Opt(Box<Ast>),
    Pipe(Box<Ast>, Box<Ast>),
    Comma(Box<Ast>, Box<Ast>),
    Lit(V),
    Arr0,
    Arr(Box<Ast>),
    Obj(Vec<(Ast, Ast)>),
    Neg(Box<Ast>),
    Bin(&'static str, Box<Ast>, Box<Ast>),
    Cmp(&'static str, Box<Ast>, Box<Ast>),
    And(Box<Ast>, Box<Ast>),
    Or(Box<Ast>, Box<Ast>),
    Alt(Box<Ast>, Box<Ast>),
    If(Box<Ast>, Box<Ast>, Box<Ast>),
    Try(Box<Ast>, Option<Box<Ast>>),
    Err0,
    Err(Box<Ast>),
    Reduce(Box<Ast>, String, Box<Ast>, Box<Ast>),
    Foreach(Box<Ast>, String, Box<Ast>, Box<Ast>, Option<Box<Ast>>),
    As(Box<Ast>, String, Box<Ast>),
    Var(String),
    Label(String, Box<Ast>),
    Break(String),
    Call(String, Vec<Ast>),
    /// opaque tier: program text without spec semantics
    Raw(String),
}

pub fn b(a: Ast) -> Box<Ast> {
    Box::new(a)
}
pub fn call0(f: &str) -> Ast {
    Ast::Call(f.to_string(), vec![])
}
pub fn call(f: &str, a: Vec<Ast>) -> Ast {
    Ast::Call(f.to_string(), a)
}
pub fn pipe(l: Ast, r: Ast) -> Ast {
    Ast::Pipe(b(l), b(r))
}
pub fn lit_i(i: i64) -> Ast {
    Ast::Lit(V::int(i))
}
pub fn lit_s(s: &str) -> Ast {
    Ast::Lit(V::s(s))
}

fn is_ident(s: &str) -> bool {
    !s.is_empty()
        && s.chars().next().map(|c| c.is_ascii_alphabetic() || c == '_').unwrap()
        && s.chars().all(|c| c.is_ascii_alphanumeric() || c == '_')
        && !matches!(s, "and" | "or" | "not" | "if" | "then" | "else" | "end" | "as" | "def" | "reduce" | "foreach" | "try" | "catch" | "label" | "import" | "include" | "elif" | "__loc__")
}

impl Ast {
    pub fn render(&self) -> String {
        match self {
            Ast::Id => ".".into(),
            Ast::Field(n) => {
                if is_ident(n) {
                    format!(".{n}")
                } else {
                    format!(".[{}]", serde_json::to_string(n).unwrap())
                }
            }
            Ast::Idx(t, k) => match **t {
                Ast::Id => format!(".[{}]", k.render()),
                _ => format!("({})[{}]", t.render(), k.render()),
            },
            Ast::Iter => ".[]".into(),
            Ast::Opt(e) => format!("({})?", e.render()),
            Ast::Pipe(l, r) => format!("({} | {})", l.render(), r.render()),
            Ast::Comma(l, r) => format!("({} , {})", l.render(), r.render()),
            Ast::Lit(v) => match v {
                V::Num(t) if t.starts_with('-') => format!("({t})"),
                _ => v.text(),
            },
            Ast::Arr0 => "[]".into(),
            Ast::Arr(e) => format!("[{}]", e.render()),
            Ast::Obj(kv) => format!(
                "{{{}}}",
                kv.iter().map(|(k, v)| format!("({}): ({})", k.render(), v.render())).collect::<Vec<_>>().join(", ")
            ),
            Ast::Neg(e) => format!("(-({}))", e.render()),
            Ast::Bin(o, l, r) | Ast::Cmp(o, l, r) => format!("({} {} {})", l.render(), o, r.render()),
            Ast::And(l, r) => format!("({} and {})", l.render(), r.render()),
            Ast::Or(l, r) => format!("({} or {})", l.render(), r.render()),
            Ast::Alt(l, r) => format!("({} // {})", l.render(), r.render()),
            Ast::If(c, t, e) => format!("(if {} then {} else {} end)", c.render(), t.render(), e.render()),
            Ast::Try(bd, None) => format!("(try ({}))", bd.render()),
            Ast::Try(bd, Some(c)) => format!("(try ({}) catch ({}))", bd.render(), c.render()),
            Ast::Err0 => "error".into(),
            Ast::Err(e) => format!("error({})", e.render()),
            Ast::Reduce(s, x, i, u) => format!("(reduce ({}) as ${} ({}; {}))", s.render(), x, i.render(), u.render()),
            Ast::Foreach(s, x, i, u, None) => format!("(foreach ({}) as ${} ({}; {}))", s.render(), x, i.render(), u.render()),
            Ast::Foreach(s, x, i, u, Some(e)) => {
                format!("(foreach ({}) as ${} ({}; {}; {}))", s.render(), x, i.render(), u.render(), e.render())
            }
            Ast::As(s, x, bd) => format!("(({}) as ${} | {})", s.render(), x, bd.render()),
            Ast::Var(x) => format!("${x}"),
            Ast::Label(x, bd) => format!("(label ${} | {})", x, bd.render()),
            Ast::Break(x) => format!("(break ${x})"),
            Ast::Call(f, a) => {
                if f == ".." {
                    "..".into()
                } else if a.is_empty() {
                    f.clone()
                } else {
                    format!("{}({})", f, a.iter().map(|x| x.render()).collect::<Vec<_>>().join("; "))
                }
            }
            Ast::Raw(t) => t.clone(),
        }
    }

    /// JSON form read by JqCore.tla's Eval; None if the tree contains an opaque node
    pub fn enc(&self) -> Option<Value> {
        Some(match self {
            Ast::Id => json!({"op":"id"}),
            Ast::Field(n) => json!({"op":"field","name":cps(n)}),
            Ast::Idx(t, k) => json!({"op":"idx","t":t.enc()?,"k":k.enc()?}),
            Ast::Iter => json!({"op":"iter"}),
            Ast::Opt(e) => json!({"op":"opt","e":e.enc()?}),
            Ast::Pipe(l, r) => json!({"op":"pipe","l":l.enc()?,"r":r.enc()?}),
            Ast::Comma(l, r) => json!({"op":"comma","l":l.enc()?,"r":r.enc()?}),
            Ast::Lit(v) => json!({"op":"lit","v":v.enc()}),
            Ast::Arr0 => json!({"op":"arr0"}),
            Ast::Arr(e) => json!({"op":"arr","e":e.enc()?}),
            Ast::Obj(kv) => {
                let mut es = vec![];
                for (k, v) in kv {
                    es.push(json!([k.enc()?, v.enc()?]));
                }
                json!({"op":"obj","kv":es})
            }
            Ast::Neg(e) => json!({"op":"neg","e":e.enc()?}),
            Ast::Bin(o, l, r) => json!({"op":"bin","o":o,"l":l.enc()?,"r":r.enc()?}),
            Ast::Cmp(o, l, r) => json!({"op":"cmp","o":o,"l":l.enc()?,"r":r.enc()?}),
            Ast::And(l, r) => json!({"op":"and","l":l.enc()?,"r":r.enc()?}),
            Ast::Or(l, r) => json!({"op":"or","l":l.enc()?,"r":r.enc()?}),
            Ast::Alt(l, r) => json!({"op":"alt","l":l.enc()?,"r":r.enc()?}),
            Ast::If(c, t, e) => json!({"op":"if","c":c.enc()?,"t":t.enc()?,"e":e.enc()?}),
            Ast::Try(bd, None) => json!({"op":"try0","b":bd.enc()?}),
            Ast::Try(bd, Some(c)) => json!({"op":"try","b":bd.enc()?,"c":c.enc()?}),
            Ast::Err0 => json!({"op":"err0"}),
            Ast::Err(e) => json!({"op":"err","e":e.enc()?}),
            Ast::Reduce(s, x, i, u) => json!({"op":"reduce","s":s.enc()?,"x":x,"i":i.enc()?,"u":u.enc()?}),
            Ast::Foreach(s, x, i, u, None) => json!({"op":"foreach","s":s.enc()?,"x":x,"i":i.enc()?,"u":u.enc()?}),
            Ast::Foreach(s, x, i, u, Some(e)) => {
                json!({"op":"foreach","s":s.enc()?,"x":x,"i":i.enc()?,"u":u.enc()?,"e":e.enc()?})
            }
            Ast::As(s, x, bd) => json!({"op":"as","s":s.enc()?,"x":x,"b":bd.enc()?}),
            Ast::Var(x) => json!({"op":"var","x":x}),
            Ast::Label(x, bd) => json!({"op":"label","x":x,"b":bd.enc()?}),
            Ast::Break(x) => json!({"op":"break","x":x}),
            Ast::Call(f, a) => {
                let mut es = vec![];
                for x in a {
                    es.push(x.enc()?);
                }
                json!({"op":"call","f":f,"a":es})
            }
            Ast::Raw(_) => return None,
        })
    }

    pub fn size(&self) -> usize {
        match self {
            Ast::Idx(a, c) | Ast::Pipe(a, c) | Ast::Comma(a, c) | Ast::Bin(_, a, c) | Ast::Cmp(_, a, c) | Ast::And(a, c)
            | Ast::Or(a, c) | Ast::Alt(a, c) => 1 + a.size() + c.size(),
            Ast::Opt(e) | Ast::Arr(e) | Ast::Neg(e) | Ast::Err(e) | Ast::Label(_, e) => 1 + e.size(),
            Ast::Obj(kv) => 1 + kv.iter().map(|(k, v)| k.size() + v.size()).sum::<usize>(),
            Ast::If(c, t, e) => 1 + c.size() + t.size() + e.size(),
            Ast::Try(x, c) => 1 + x.size() + c.as_ref().map(|c| c.size()).unwrap_or(0),
            Ast::Reduce(s, _, i, u) => 1 + s.size() + i.size() + u.size(),
            Ast::Foreach(s, _, i, u, e) => 1 + s.size() + i.size() + u.size() + e.as_ref().map(|e| e.size()).unwrap_or(0),
            Ast::As(s, _, x) => 1 + s.size() + x.size(),
            Ast::Call(_, a) => 1 + a.iter().map(|x| x.size()).sum::<usize>(),
            _ => 1,
        }
    }

    /// names of builtins / constructs used (for coverage accounting)
    pub fn ops(&self, out: &mut std::collections::BTreeSet<String>) {
        let tag = |s: &str, out: &mut std::collections::BTreeSet<String>| {
            out.insert(s.to_string());
        };
        match self {
            Ast::Id => tag("id", out),
            Ast::Field(_) => tag("field", out),
            Ast::Idx(a, c) => {
                tag("idx", out);
                a.ops(out);
                c.ops(out)
            }
            Ast::Iter => tag("iter", out),
            Ast::Opt(e) => {
                tag("opt", out);
                e.ops(out)
            }
            Ast::Pipe(a, c) => {
                a.ops(out);
                c.ops(out)
            }
            Ast::Comma(a, c) => {
                tag("comma", out);
                a.ops(out);
                c.ops(out)
            }
            Ast::Lit(_) => tag("lit", out),
            Ast::Arr0 => tag("arr", out),
            Ast::Arr(e) => {
                tag("arr", out);
                e.ops(out)
            }
            Ast::Obj(kv) => {
                tag("obj", out);
                for (k, v) in kv {
                    k.ops(out);
                    v.ops(out)
                }
            }
            Ast::Neg(e) => {
                tag("neg", out);
                e.ops(out)
            }
            Ast::Bin(o, a, c) | Ast::Cmp(o, a, c) => {
                tag(o, out);
                a.ops(out);
                c.ops(out)
            }
            Ast::And(a, c) => {
                tag("and", out);
                a.ops(out);
                c.ops(out)
            }
            Ast::Or(a, c) => {
                tag("or", out);
                a.ops(out);
                c.ops(out)
            }
            Ast::Alt(a, c) => {
                tag("//", out);
                a.ops(out);
                c.ops(out)
            }
            Ast::If(c, t, e) => {
                tag("if", out);
                c.ops(out);
                t.ops(out);
                e.ops(out)
            }
            Ast::Try(x, c) => {
                tag("try", out);
                x.ops(out);
                if let Some(c) = c {
                    c.ops(out)
                }
            }
            Ast::Err0 => tag("error", out),
            Ast::Err(e) => {
                tag("error", out);
                e.ops(out)
            }
            Ast::Reduce(s, _, i, u) => {
                tag("reduce", out);
                s.ops(out);
                i.ops(out);
                u.ops(out)
            }
            Ast::Foreach(s, _, i, u, e) => {
                tag("foreach", out);
                s.ops(out);
                i.ops(out);
                u.ops(out);
                if let Some(e) = e {
                    e.ops(out)
                }
            }
            Ast::As(s, _, x) => {
                tag("as", out);
                s.ops(out);
                x.ops(out)
            }
            Ast::Var(_) => tag("var", out),
            Ast::Label(_, e) => {
                tag("label", out);
                e.ops(out)
            }
            Ast::Break(_) => tag("break", out),
            Ast::Call(f, a) => {
                out.insert(format!("{}/{}", f, a.len()));
                for x in a {
                    x.ops(out)
                }
            }
            Ast::Raw(_) => tag("raw", out),
        }
    }
}

// ---------------------------------------------------------------------------------------
// generators
// ---------------------------------------------------------------------------------------

#[derive(Clone, Copy, PartialEq, Debug)]
pub enum Sh {
    Any,
    Num,
    Str,
    Arr,
    Obj,
    Bool,
}

pub const KEYS: [&str; 8] = ["a", "b", "c", "key", "value", "k", "é", "name"];
pub const STRS: [&str; 12] = ["", "a", "b", "ab", "abc", "A", "é", "a b", "x\"y", "😀", "abcdefghijklmno", "10"];
/// spellings whose jq-1.7.1 canonical output is the literal itself
pub const ATOMS: [&str; 8] = ["1.5", "-2.5", "0.25", "3.75", "10000000000", "-10000000000", "1.0", "100000000000000000000"];
/// agreement-only spellings (canonicalisation not modelled)
pub const ODD_NUMS: [&str; 12] =
    ["-0", "1e2", "1E+2", "0.10", "1e1000", "-1e1000", "1.7976931348623157e308", "5e-324", "9007199254740993", "1e-5", "0e10", "123456789012345678901234567890"];

pub struct Gen {
    pub r: Rng,
    /// allow agreement-only number spellings in inputs / literals
    pub odd_nums: bool,
    pub atoms: bool,
    /// allow numbers of huge magnitude (inputs of the core tier / C25 values only)
    pub big: bool,
    vars: Vec<String>,
    labels: Vec<String>,
}

impl Gen {
    pub fn new(seed: u64) -> Self {
        Gen { r: Rng::new(seed), odd_nums: false, atoms: true, big: true, vars: vec![], labels: vec![] }
    }

    fn pk(&mut self, xs: &[&'static str]) -> &'static str {
        xs[self.r.below(xs.len() as u64) as usize]
    }

    pub fn small_int(&mut self) -> i64 {
        match self.r.below(10) {
            0 => -(self.r.below(4) as i64) - 1,
            1 => self.r.range(10, 1000) as i64,
            _ => self.r.below(5) as i64,
        }
    }

    pub fn num(&mut self) -> V {
        let k = self.r.below(20);
        if k == 0 && self.odd_nums {
            loop {
                let t = self.pk(&ODD_NUMS);
                if self.big || t.parse::<f64>().map(|x| x.abs() < 1.0e6).unwrap_or(false) {
                    return V::Num(t.to_string());
                }
            }
        } else if k <= 2 && self.atoms {
            loop {
                let t = self.pk(&ATOMS);
                if self.big || t.parse::<f64>().map(|x| x.abs() < 1.0e6).unwrap_or(false) {
                    return V::Num(t.to_string());
                }
            }
        } else {
            V::int(self.small_int())
        }
    }

    /// numbers spliced into PROGRAM text are never of huge magnitude: `range(0; 1e20)`,
    /// `"ab" * 1e10` and friends are resource bombs for the code under test, not test cases
    pub fn lit_num(&mut self) -> V {
        let save = self.big;
        self.big = false;
        let v = self.num();
        self.big = save;
        v
    }

    pub fn lit_scalar(&mut self) -> V {
        let save = self.big;
        self.big = false;
        let v = self.scalar();
        self.big = save;
        v
    }

    pub fn string(&mut self) -> V {
        if self.r.chance(1, 4) {
            V::s(self.pk(&KEYS))
        } else {
            V::s(self.pk(&STRS))
        }
    }

    pub fn scalar(&mut self) -> V {
        match self.r.below(8) {
            0 => V::Null,
            1 => V::Bool(self.r.coin()),
            2 | 3 | 4 => self.num(),
            _ => self.string(),
        }
    }

    /// value of (roughly) the given shape; `dups` allows duplicate keys
    pub fn value(&mut self, d: u32, sh: Sh, dups: bool) -> V {
        match sh {
            Sh::Num => self.num(),
            Sh::Str => self.string(),
            Sh::Bool => V::Bool(self.r.coin()),
            Sh::Arr => {
                let n = self.r.below(5) as usize;
                // homogeneous arrays are the interesting inputs for sort/add/join/...
                let el = *self.r.pick(&[Sh::Num, Sh::Num, Sh::Str, Sh::Any, Sh::Arr, Sh::Obj]);
                (0..n)
                    .map(|_| if d == 0 { self.scalar() } else { self.value(d - 1, if el == Sh::Arr || el == Sh::Obj { if d > 1 { el } else { Sh::Num } } else { el }, dups) })
                    .collect::<Vec<_>>()
                    .into()
            }
            Sh::Obj => {
                let n = self.r.below(4) as usize;
                let mut kv: Vec<(String, V)> = vec![];
                for _ in 0..n {
                    let k = self.pk(&KEYS).to_string();
                    if !dups && kv.iter().any(|(k2, _)| *k2 == k) {
                        continue;
                    }
                    let v = if d == 0 { self.scalar() } else { self.value(d - 1, Sh::Any, dups) };
                    kv.push((k, v));
                }
                if dups && !kv.is_empty() && self.r.chance(1, 3) {
                    let k = kv[self.r.below(kv.len() as u64) as usize].0.clone();
                    let v = self.scalar();
                    kv.push((k, v));
                }
                V::Obj(kv)
            }
            Sh::Any => {
                if d == 0 {
                    self.scalar()
                } else {
                    match self.r.below(10) {
                        0..=3 => self.scalar(),
                        4..=6 => self.value(d, Sh::Arr, dups),
                        _ => self.value(d, Sh::Obj, dups),
                    }
                }
            }
        }
    }

    /// array of small objects over the keys a/b whose key-first and value-first orders differ
    /// (jq orders objects by their sorted key lists first, then by the values in key order)
    pub fn obj_order_array(&mut self) -> V {
        if self.r.coin() {
            // objects with the SAME key set, written in non-sorted key order, whose values are
            // anti-correlated across keys: jq's object order (sorted key sets, then values in
            // sorted-key order) differs from any order that follows insertion order
            let n = self.r.range(2, 4) as usize;
            let three = self.r.coin();
            return V::Arr(
                (0..n)
                    .map(|i| {
                        let a = i as i64;
                        let b = (n - i) as i64;
                        let mut kv = vec![("b".to_string(), V::int(b)), ("a".to_string(), V::int(a))];
                        if three {
                            kv.insert(0, ("c".to_string(), V::int(self.r.below(2) as i64)));
                        }
                        if self.r.chance(1, 3) {
                            kv.reverse();
                        }
                        V::Obj(kv)
                    })
                    .collect(),
            );
        }
        let n = self.r.range(2, 4) as usize;
        V::Arr(
            (0..n)
                .map(|_| {
                    let mut kv = vec![];
                    for k in ["a", "b", "c"] {
                        if self.r.chance(3, 5) {
                            kv.push((k.to_string(), V::int(self.r.below(3) as i64)));
                        }
                    }
                    if self.r.coin() {
                        kv.reverse();
                    }
                    V::Obj(kv)
                })
                .collect(),
        )
    }

    /// entries-shaped array for from_entries / with_entries
    pub fn entries(&mut self) -> V {
        let n = self.r.below(4) as usize;
        V::Arr(
            (0..n)
                .map(|_| {
                    let kname = *self.r.pick(&["key", "key", "key", "name", "Key", "Name", "k"]);
                    let vname = *self.r.pick(&["value", "value", "value", "Value", "v"]);
                    let k = if self.r.chance(1, 8) { self.scalar() } else { self.string() };
                    let mut kv = vec![(kname.to_string(), k)];
                    if self.r.chance(7, 8) {
                        kv.push((vname.to_string(), self.scalar()));
                    }
                    V::Obj(kv)
                })
                .collect(),
        )
    }

    fn var_name(&mut self) -> String {
        self.r.pick(&["x", "y", "z"]).to_string()
    }

    fn key_lit(&mut self) -> Ast {
        lit_s(self.pk(&KEYS))
    }

    fn lit_of(&mut self, sh: Sh) -> Ast {
        match sh {
            Sh::Num => Ast::Lit(self.lit_num()),
            Sh::Str => Ast::Lit(self.string()),
            Sh::Bool => Ast::Lit(V::Bool(self.r.coin())),
            Sh::Arr => {
                let n = self.r.below(4);
                if n == 0 {
                    Ast::Arr0
                } else {
                    let mut e = Ast::Lit(self.lit_scalar());
                    for _ in 1..n {
                        e = Ast::Comma(b(e), b(Ast::Lit(self.lit_scalar())));
                    }
                    Ast::Arr(b(e))
                }
            }
            Sh::Obj => {
                let n = self.r.below(3) as usize;
                Ast::Obj((0..n).map(|_| (self.key_lit(), Ast::Lit(self.lit_scalar()))).collect())
            }
            Sh::Any => Ast::Lit(self.lit_scalar()),
        }
    }

    /// A generator expression producing several values
    fn multi(&mut self, d: u32, sh: Sh) -> Ast {
        match self.r.below(4) {
            0 => Ast::Comma(b(self.expr(d, sh).0), b(self.expr(d, sh).0)),
            1 => call("range", vec![lit_i(self.r.below(4) as i64)]),
            2 if sh == Sh::Arr || sh == Sh::Obj => Ast::Iter,
            _ => Ast::Comma(b(Ast::Lit(self.lit_scalar())), b(Ast::Lit(self.lit_scalar()))),
        }
    }

    fn cond(&mut self, d: u32, sh: Sh) -> Ast {
        let d1 = d.saturating_sub(1);
        match self.r.below(6) {
            0 => Ast::Cmp(*self.r.pick(&["==", "!=", "<", "<=", ">", ">="]), b(self.expr(d1, sh).0), b(self.expr(d1, sh).0)),
            1 => Ast::Cmp(*self.r.pick(&["<", ">", "==", ">="]), b(Ast::Id), b(Ast::Lit(self.lit_scalar()))),
            2 => pipe(call0("type"), Ast::Cmp("==", b(Ast::Id), b(lit_s(self.pk(&["number", "string", "array", "object", "null", "boolean"]))))),
            3 => Ast::And(b(self.expr(d1, sh).0), b(self.expr(d1, sh).0)),
            4 => Ast::Or(b(self.expr(d1, sh).0), b(self.expr(d1, sh).0)),
            _ => self.expr(d1, sh).0,
        }
    }

    /// core-tier expression for an input of (likely) shape `sh`; returns the likely output shape
    pub fn expr(&mut self, d: u32, sh: Sh) -> (Ast, Sh) {
        if d == 0 {
            return self.leaf(sh);
        }
        let d1 = d - 1;
        // with some probability ignore the shape hint (type errors are part of the language)
        let sh_eff = if self.r.chance(1, 8) { *self.r.pick(&[Sh::Any, Sh::Num, Sh::Str, Sh::Arr, Sh::Obj]) } else { sh };
        let k = self.r.below(100);
        match k {
            0..=17 => {
                let (l, s1) = self.expr(d1, sh);
                let (r, s2) = self.expr(d1, s1);
                (pipe(l, r), s2)
            }
            18..=22 => {
                let (l, s1) = self.expr(d1, sh);
                let (r, s2) = self.expr(d1, sh);
                (Ast::Comma(b(l), b(r)), if s1 == s2 { s1 } else { Sh::Any })
            }
            23..=27 => (Ast::Arr(b(if self.r.coin() { self.multi(d1, sh) } else { self.expr(d1, sh).0 })), Sh::Arr),
            28..=31 => {
                let n = self.r.range(1, 2) as usize;
                let kv = (0..n)
                    .map(|_| {
                        let k = match self.r.below(10) {
                            0 => self.expr(d1.min(1), sh).0,
                            1 => pipe(self.expr(d1.min(1), sh).0, call0("tostring")),
                            _ => self.key_lit(),
                        };
                        let v = if self.r.chance(1, 5) { self.multi(d1, sh) } else { self.expr(d1, sh).0 };
                        (k, v)
                    })
                    .collect();
                (Ast::Obj(kv), Sh::Obj)
            }
            32..=37 => {
                let c = self.cond(d1, sh);
                let (t, s1) = self.expr(d1, sh);
                let (e, s2) = self.expr(d1, sh);
                (Ast::If(b(c), b(t), b(e)), if s1 == s2 { s1 } else { Sh::Any })
            }
            38..=41 => {
                let (e, s) = self.expr(d1, sh_eff);
                let bd = if self.r.chance(1, 3) { Ast::Comma(b(e), b(self.raise(d1, sh))) } else { e };
                let c = if self.r.chance(2, 3) { Some(b(self.expr(d1, Sh::Any).0)) } else { None };
                (Ast::Try(b(bd), c), s)
            }
            42..=44 => {
                let (e, s) = self.expr(d1, sh_eff);
                (Ast::Opt(b(e)), s)
            }
            45..=47 => {
                let (l, s1) = self.expr(d1, sh);
                let (r, _) = self.expr(d1, sh);
                (Ast::Alt(b(l), b(r)), s1)
            }
            48..=51 => {
                // as-binding
                let x = self.var_name();
                let (s, _) = if self.r.chance(1, 3) { (self.multi(d1, sh), Sh::Any) } else { self.expr(d1, sh) };
                self.vars.push(x.clone());
                let (bd, so) = self.expr(d1, sh);
                self.vars.pop();
                (Ast::As(b(s), x, b(bd)), so)
            }
            52..=56 => {
                // reduce / foreach
                let x = self.var_name();
                let src = match self.r.below(3) {
                    0 if sh == Sh::Arr || sh == Sh::Obj => Ast::Iter,
                    1 => call("range", vec![lit_i(self.r.below(4) as i64)]),
                    _ => self.multi(d1, sh),
                };
                let init = match self.r.below(4) {
                    0 => lit_i(0),
                    1 => Ast::Arr0,
                    2 => Ast::Lit(V::Null),
                    _ => self.expr(d1.min(1), sh).0,
                };
                self.vars.push(x.clone());
                let upd = match self.r.below(4) {
                    0 => Ast::Bin("+", b(Ast::Id), b(Ast::Var(x.clone()))),
                    1 => Ast::Bin("+", b(Ast::Id), b(Ast::Arr(b(Ast::Var(x.clone()))))),
                    _ => self.expr(d1, Sh::Any).0,
                };
                let res = if self.r.coin() {
                    (Ast::Reduce(b(src), x.clone(), b(init), b(upd)), Sh::Any)
                } else {
                    let ext = if self.r.coin() { Some(b(self.expr(d1, Sh::Any).0)) } else { None };
                    (Ast::Foreach(b(src), x.clone(), b(init), b(upd), ext), Sh::Any)
                };
                self.vars.pop();
                res
            }
            57..=59 => {
                let l = self.r.pick(&["out", "brk"]).to_string();
                self.labels.push(l.clone());
                let (bd, s) = self.expr(d1, sh);
                let bd = if self.r.coin() { Ast::Comma(b(bd), b(Ast::Comma(b(Ast::Break(l.clone())), b(lit_i(9))))) } else { bd };
                self.labels.pop();
                (Ast::Label(l, b(bd)), s)
            }
            60..=65 => {
                let g = self.multi(d1, sh);
                match self.r.below(6) {
                    0 | 4 | 5 => (call("limit", vec![lit_i(*self.r.pick(&[0, 0, 1, 2, 3, -1])), g]), Sh::Any),
                    1 => (call("first", vec![g]), Sh::Any),
                    2 => (call("last", vec![g]), Sh::Any),
                    _ => (call("isempty", vec![g]), Sh::Bool),
                }
            }
            66 => (self.cond(d, sh), Sh::Bool),
            _ => self.by_shape(d, sh_eff),
        }
    }

    fn raise(&mut self, d: u32, sh: Sh) -> Ast {
        match self.r.below(4) {
            0 => Ast::Err0,
            1 => Ast::Err(b(Ast::Lit(self.lit_scalar()))),
            2 => Ast::Err(b(self.expr(d.min(1), sh).0)),
            _ => Ast::Err(b(lit_s("boom"))),
        }
    }

    fn leaf(&mut self, sh: Sh) -> (Ast, Sh) {
        match self.r.below(12) {
            0..=2 => (Ast::Id, sh),
            3 => {
                let s = *self.r.pick(&[Sh::Num, Sh::Str, Sh::Any, Sh::Arr, Sh::Obj]);
                (self.lit_of(s), s)
            }
            4 if !self.vars.is_empty() => {
                let v = self.vars[self.r.below(self.vars.len() as u64) as usize].clone();
                (Ast::Var(v), Sh::Any)
            }
            5 if !self.labels.is_empty() && self.r.chance(1, 3) => {
                let l = self.labels[self.r.below(self.labels.len() as u64) as usize].clone();
                (Ast::Break(l), Sh::Any)
            }
            6 if self.r.chance(1, 4) => (call0("empty"), Sh::Any),
            7 if self.r.chance(1, 4) => (self.raise(0, sh), Sh::Any),
            _ => self.by_shape(0, sh),
        }
    }

    /// shape-directed productions
    fn by_shape(&mut self, d: u32, sh: Sh) -> (Ast, Sh) {
        let d1 = d.saturating_sub(1);
        match sh {
            Sh::Num => match self.r.below(12) {
                0..=4 => {
                    let o = *self.r.pick(&["+", "-", "*", "%", "/", "+", "-"]);
                    let rhs = if o == "/" || o == "%" { lit_i(*self.r.pick(&[1, 2, 3, -2, 0])) } else { Ast::Lit(self.lit_num()) };
                    if self.r.coin() {
                        (Ast::Bin(o, b(Ast::Id), b(rhs)), Sh::Num)
                    } else {
                        (Ast::Bin(o, b(rhs), b(Ast::Id)), Sh::Num)
                    }
                }
                5 => (Ast::Neg(b(Ast::Id)), Sh::Num),
                6 => (call0("tostring"), Sh::Str),
                7 => (call0("tojson"), Sh::Str),
                8 => (call("range", vec![Self::clamped()]), Sh::Num),
                9 => (call0("length"), Sh::Num),
                10 => (call("range", vec![lit_i(self.r.below(3) as i64), Self::clamped()]), Sh::Num),
                _ => (Ast::Cmp(*self.r.pick(&["<", ">=", "=="]), b(Ast::Id), b(Ast::Lit(self.lit_num()))), Sh::Bool),
            },
            Sh::Str => match self.r.below(12) {
                0 | 1 => (Ast::Bin("+", b(Ast::Id), b(Ast::Lit(self.string()))), Sh::Str),
                2 => (call0("length"), Sh::Num),
                3 => (call0("ascii_downcase"), Sh::Str),
                4 => (call0("ascii_upcase"), Sh::Str),
                5 => (call0("explode"), Sh::Arr),
                6 => (call(*self.r.pick(&["startswith", "endswith"]), vec![Ast::Lit(self.string())]), Sh::Bool),
                7 => (call(*self.r.pick(&["ltrimstr", "rtrimstr"]), vec![Ast::Lit(self.string())]), Sh::Str),
                8 => (call0("tojson"), Sh::Str),
                9 => (call0("utf8bytelength"), Sh::Num),
                10 => (pipe(call0("explode"), call0("implode")), Sh::Str),
                _ => (Ast::Arr(b(Ast::Comma(b(Ast::Id), b(Ast::Lit(self.string()))))), Sh::Arr),
            },
            Sh::Bool => match self.r.below(3) {
                0 => (call0("not"), Sh::Bool),
                1 => (Ast::And(b(Ast::Id), b(Ast::Lit(V::Bool(self.r.coin())))), Sh::Bool),
                _ => (Ast::If(b(Ast::Id), b(lit_i(1)), b(lit_i(0))), Sh::Num),
            },
            Sh::Arr => match self.r.below(34) {
                0 | 1 => (Ast::Iter, Sh::Any),
                2 | 3 => (Ast::Idx(b(Ast::Id), b(lit_i(*self.r.pick(&[0, 1, 2, -1, -2, 5])))), Sh::Any),
                4 | 5 => (call("map", vec![self.expr(d1, Sh::Any).0]), Sh::Arr),
                6 => (call("map", vec![call("select", vec![self.cond(d1, Sh::Any)])]), Sh::Arr),
                7 => (call0("sort"), Sh::Arr),
                8 => (call("sort_by", vec![self.expr(d1.min(1), Sh::Any).0]), Sh::Arr),
                9 => (call0("unique"), Sh::Arr),
                10 => (call("group_by", vec![self.expr(d1.min(1), Sh::Any).0]), Sh::Arr),
                11 => (call(*self.r.pick(&["unique_by", "min_by", "max_by"]), vec![self.expr(d1.min(1), Sh::Any).0]), Sh::Any),
                12 => (call0(*self.r.pick(&["min", "max"])), Sh::Any),
                13 | 14 => (call0("add"), Sh::Any),
                15 => (call0("reverse"), Sh::Arr),
                16 => (call0("length"), Sh::Num),
                17 => (call0("keys"), Sh::Arr),
                18 => (call0("flatten"), Sh::Arr),
                19 => (call("flatten", vec![lit_i(self.r.below(3) as i64)]), Sh::Arr),
                20 => (call("join", vec![Ast::Lit(self.string())]), Sh::Str),
                21 => (call0(*self.r.pick(&["first", "last"])), Sh::Any),
                22 => (call0(*self.r.pick(&["any", "all"])), Sh::Bool),
                23 => (call(*self.r.pick(&["any", "all"]), vec![self.cond(d1, Sh::Any)]), Sh::Bool),
                24 => (call0("to_entries"), Sh::Arr),
                25 => (call0("from_entries"), Sh::Obj),
                26 => (Ast::Arr(b(call0("tostream"))), Sh::Arr),
                27 => (Ast::Arr(b(call0("paths"))), Sh::Arr),
                28 => (call("has", vec![lit_i(self.r.below(4) as i64)]), Sh::Bool),
                29 => (call("getpath", vec![self.path_lit()]), Sh::Any),
                30 => (call("setpath", vec![self.path_lit(), self.expr(d1.min(1), Sh::Any).0]), Sh::Any),
                31 => (call("delpaths", vec![Ast::Arr(b(Ast::Comma(b(self.path_lit()), b(self.path_lit()))))]), Sh::Any),
                32 => (Ast::Bin(*self.r.pick(&["+", "-"]), b(Ast::Id), b(self.lit_of(Sh::Arr))), Sh::Arr),
                _ => (call("fromstream", vec![Ast::Iter]), Sh::Any),
            },
            Sh::Obj => match self.r.below(24) {
                0..=3 => (Ast::Field(self.pk(&KEYS).to_string()), Sh::Any),
                4 => (Ast::Iter, Sh::Any),
                5 => (call0(*self.r.pick(&["keys", "keys_unsorted"])), Sh::Arr),
                6 => (call0("to_entries"), Sh::Arr),
                7 => (call("with_entries", vec![self.entry_fn(d1)]), Sh::Obj),
                8 => (call("has", vec![self.key_lit()]), Sh::Bool),
                9 => (call0("length"), Sh::Num),
                10 => (call0("add"), Sh::Any),
                11 => (Ast::Arr(b(call0("tostream"))), Sh::Arr),
                12 => (Ast::Arr(b(call0("paths"))), Sh::Arr),
                13 => (Ast::Bin(*self.r.pick(&["+", "*"]), b(Ast::Id), b(self.lit_of(Sh::Obj))), Sh::Obj),
                14 => (call("map", vec![self.expr(d1, Sh::Any).0]), Sh::Arr),
                15 => (call("getpath", vec![self.path_lit()]), Sh::Any),
                16 => (call("setpath", vec![self.path_lit(), self.expr(d1.min(1), Sh::Any).0]), Sh::Obj),
                17 => (call("delpaths", vec![Ast::Arr(b(self.path_lit()))]), Sh::Obj),
                18 => (pipe(call0("to_entries"), call0("from_entries")), Sh::Obj),
                19 => (Ast::Idx(b(Ast::Id), b(self.key_lit())), Sh::Any),
                20 => (Ast::Arr(b(call("paths", vec![self.cond(d1, Sh::Any)]))), Sh::Arr),
                21 => (Ast::Arr(b(call0(".."))), Sh::Arr),
                22 => (Ast::Arr(b(call0("leaf_paths"))), Sh::Arr),
                _ => (pipe(Ast::Arr(b(call0("tostream"))), call("fromstream", vec![Ast::Iter])), Sh::Obj),
            },
            Sh::Any => match self.r.below(16) {
                0 => (call0("type"), Sh::Str),
                1 => (call0("tojson"), Sh::Str),
                2 => (call0("tostring"), Sh::Str),
                3 => (call0("not"), Sh::Bool),
                4 => (call0("length"), Sh::Num),
                5 => (Ast::Arr(b(Ast::Id)), Sh::Arr),
                6 => (call("select", vec![self.cond(d1, Sh::Any)]), Sh::Any),
                7 => (call0(*self.r.pick(&["values", "nulls", "booleans", "numbers", "strings", "arrays", "objects", "iterables", "scalars"])), Sh::Any),
                8 => (Ast::Arr(b(call0("tostream"))), Sh::Arr),
                9 => (Ast::Opt(b(Ast::Iter)), Sh::Any),
                10 => (Ast::Opt(b(Ast::Field(self.pk(&KEYS).to_string()))), Sh::Any),
                11 => (Ast::Arr(b(call0("paths"))), Sh::Arr),
                12 => {
                    let s = *self.r.pick(&[Sh::Num, Sh::Str, Sh::Arr, Sh::Obj]);
                    (self.lit_of(s), s)
                }
                13 => (Ast::Cmp(*self.r.pick(&["==", "<", ">="]), b(Ast::Id), b(Ast::Lit(self.lit_scalar()))), Sh::Bool),
                14 => {
                    let s = *self.r.pick(&[Sh::Obj, Sh::Arr]);
                    (call("in", vec![self.lit_of(s)]), Sh::Bool)
                }
                _ => (Ast::Id, Sh::Any),
            },
        }
    }

    /// `.` clamped for use as a loop bound: (if . > 9 then 3 else . end)
    fn clamped() -> Ast {
        Ast::If(b(Ast::Cmp(">", b(Ast::Id), b(lit_i(9)))), b(lit_i(3)), b(Ast::Id))
    }

    fn entry_fn(&mut self, d: u32) -> Ast {
        match self.r.below(5) {
            0 => Ast::Id,
            1 => call("select", vec![pipe(Ast::Field("value".into()), self.cond(d.min(1), Sh::Any))]),
            2 => Ast::Obj(vec![(lit_s("key"), pipe(Ast::Field("key".into()), call0("ascii_upcase"))), (lit_s("value"), Ast::Field("value".into()))]),
            3 => Ast::Obj(vec![(lit_s("key"), Ast::Field("key".into())), (lit_s("value"), pipe(Ast::Field("value".into()), self.expr(d.min(1), Sh::Any).0))]),
            _ => Ast::Obj(vec![(lit_s("name"), Ast::Field("key".into())), (lit_s("Value"), Ast::Field("value".into()))]),
        }
    }

    fn path_lit(&mut self) -> Ast {
        let n = self.r.below(3);
        if n == 0 {
            return Ast::Arr0;
        }
        let mut e = self.path_key();
        for _ in 1..n {
            e = Ast::Comma(b(e), b(self.path_key()));
        }
        Ast::Arr(b(e))
    }

    fn path_key(&mut self) -> Ast {
        if self.r.coin() {
            self.key_lit()
        } else {
            lit_i(*self.r.pick(&[0, 1, 2, -1, 3]))
        }
    }

    /// A core-tier program with a shape for its intended input
    pub fn core_program(&mut self, depth: u32) -> (Ast, Sh) {
        let sh = *self.r.pick(&[Sh::Arr, Sh::Arr, Sh::Obj, Sh::Obj, Sh::Num, Sh::Str, Sh::Any]);
        self.vars.clear();
        self.labels.clear();
        let d = self.r.range(1, depth as u64) as u32;
        (self.expr(d, sh).0, sh)
    }

    pub fn input_for(&mut self, sh: Sh, dups: bool) -> V {
        let sh = if self.r.chance(1, 6) { Sh::Any } else { sh };
        if sh == Sh::Arr && self.r.chance(1, 8) {
            return self.entries();
        }
        if sh == Sh::Arr && self.r.chance(1, 7) {
            return self.obj_order_array();
        }
        let d = self.r.range(1, 3) as u32;
        self.value(d, sh, dups)
    }

    // ------------------------------------------------------------------ opaque tier

    /// A filter argument for an opaque template
    fn oarg(&mut self) -> String {
        match self.r.below(19) {
            12 => "empty".into(),
            13 => "error".into(),
            14 => "(.a | select(. > 5))".into(),
            15 => "-1".into(),
            16 => "-2".into(),
            17 => "(.b | error)".into(),
            18 => ".b".into(),
            0 => ".".into(),
            1 => ".a".into(),
            2 => ".[0]".into(),
            3 => "1".into(),
            4 => "\"a\"".into(),
            5 => "\", \"".into(),
            6 => ". + 1".into(),
            7 => "[.]".into(),
            8 => ".[]?".into(),
            9 => "null".into(),
            10 => "(1,2)".into(),
            _ => {
                let (a, _) = self.expr(1, Sh::Any);
                a.render()
            }
        }
    }

    pub fn opaque_program(&mut self) -> String {
        self.opaque_program_tpl().0
    }

    /// (program text, template it was built from)
    pub fn opaque_program_tpl(&mut self) -> (String, &'static str) {
        let pre: &[&str] = &["", "", "", ".[] | ", ".[]? | ", ".a | ", "[.] | ", "tostring | ", "tojson | ", "keys? | ", "(., 1) | ", "map(.)? | "];
        let post: &[&str] = &["", "", "", " | tojson", " | length?", " | type", " | [.]", " | not", " | tostring"];
        let f = *self.r.pick(OPAQUE_BUILTINS);
        let mut body = String::new();
        let mut it = f.chars().peekable();
        while let Some(c) = it.next() {
            if c == '@' && it.peek() == Some(&'@') {
                it.next();
                body.push_str(&self.oarg());
            } else {
                body.push(c);
            }
        }
        let wrap = self.r.below(8);
        let core = format!("{}{}{}", self.r.pick(pre), body, self.r.pick(post));
        let text = match wrap {
            0 => format!("[{core}]"),
            1 => format!("try ({core}) catch ."),
            2 => format!("[({core})?]"),
            3 => format!("[limit(3; {core})]"),
            4 => format!("first({core})"),
            5 => format!("({core}) // \"alt\""),
            _ => core,
        };
        (text, f)
    }
}

impl From<Vec<V>> for V {
    fn from(v: Vec<V>) -> V {
        V::Arr(v)
    }
}

/// Templates over the builtin table (`@@` = a generated argument).  No spec semantics: these
/// feed only the evaluator-agreement clause.
pub const OPAQUE_BUILTINS: &[&str] = &[
    "type", "isnull?", "length", "utf8bytelength", "keys", "keys_unsorted", "has(@@)", "in(@@)", "inside(@@)", "contains(@@)",
    "select(@@)", "empty", "map(@@)", "map_values(@@)", "add", "any", "any(@@)", "any(@@; @@)", "all", "all(@@)", "all(@@; @@)",
    "min", "max", "min_by(@@)", "max_by(@@)", "ascii_downcase", "ascii_upcase", "ltrimstr(@@)", "rtrimstr(@@)",
    "startswith(@@)", "endswith(@@)", "split(@@)", "join(@@)", "first", "last", "nth(@@)", "first(@@)", "last(@@)", "nth(@@; @@)",
    "reverse", "flatten", "flatten(@@)", "group_by(@@)", "unique", "unique_by(@@)", "sort", "sort_by(@@)", "to_entries",
    "from_entries", "with_entries(@@)", "tostring", "tonumber", "tojson", "fromjson", "explode", "implode", "test(@@)",
    "indices(@@)", "index(@@)", "rindex(@@)", "tostream", "fromstream(@@)", "truncate_stream(@@)", "getpath(@@)", "recurse",
    "[limit(5; recurse(@@)?)]", "[limit(5; recurse(@@; @@)?)]", "walk(@@)", "isvalid(@@)", "path(@@)", "paths", "paths(@@)", "leaf_paths",
    "setpath(@@; @@)", "delpaths(@@)", "del(@@)", "to_entries | map(@@)", "floor", "ceil", "round", "sqrt", "fabs", "log", "log10",
    "log2", "exp", "exp10", "exp2", "pow(@@; @@)", "sin", "cos", "tan", "asin", "acos", "atan", "atan2(@@; @@)", "sinh", "cosh",
    "tanh", "asinh", "acosh", "atanh", "infinite", "nan", "isinfinite", "isnan", "isnormal", "isfinite", "not", "env | type",
    "$ENV | type", "null", "trim", "ltrim", "rtrim", "transpose", "bsearch(@@)", "pick(@@)", "abs", "toarray", "have_literal_numbers",
    "builtins | length", "normals", "finites", "limit(@@; @@)", "until(. == null or . == false or true; @@)", "[limit(3; while(true; @@)?)]", "[limit(3; repeat(@@)?)]",
    "range(@@)", "range(@@; @@)", "range(@@; @@; 1)", "range(@@; @@; 2)", "[limit(4; range(@@; @@; @@))]", "isempty(@@)", "error", "error(@@)", "halt_error", "halt_error(@@)", "halt",
    "gmtime", "mktime", "todate", "fromdate", "todateiso8601", "fromdateiso8601", "strftime(@@)", "strptime(@@)", "dateadd(@@; @@)?",
    "match(@@)", "capture(@@)", "sub(@@; @@)", "gsub(@@; @@)", "scan(@@)", "splits(@@)", "split(@@; @@)", "ascii", "@text", "@json",
    "@csv", "@tsv", "@html", "@uri", "@sh", "@base64", "@base64d", "@base32", "@base32d", "combinations", "combinations(@@)",
    "trunc", "toboolean", "skip(@@; @@)", "splits(@@; @@)", "getpath(@@) = @@", ".a = @@", ".[0] |= @@", ".a += @@", ".[] -= @@",
    ".a *= @@", ".a /= @@", ".a %= @@", ".a //= @@", ".[1:] ", ".[:1]", ".[@@:@@]", ".a[@@:@@]", ".[@@:]", ".[:@@]", ".a[@@:]", ".a[:@@]", ".[0][@@:@@]", ".a[@@:@@]?", ".[@@:@@] = @@", ".[1:2] = @@", "del(.[0], .a?)", "to_entries[]",
    "..", "[..]", ".. | numbers", "values", "nulls", "booleans", "numbers", "strings", "arrays", "objects", "iterables", "scalars",
    "\"x\\(@@)y\"", "@json \"v=\\(@@)\"", "@base64 \"\\(@@)\"", ". as [$a, $b] | [$b, $a]", ". as {a: $x} | $x", ". as {$a} | $a",
    ". as [$a] ?// $a | [$a]", "reduce .[]? as [$a,$b] (0; . + $a)", "foreach .[]? as $x (0; . + 1; [$x, .])", "def f: . + 1; f?",
    "def f(g): [g]; f(@@)", "def f($a; $b): $a + $b; f(@@; @@)", "label $out | foreach .[]? as $i (0; .+1; if . > 1 then ., break $out else . end)",
    "input_line_number", "$__loc__", "splits(\"a\")", "ltrimstr(1)", "tojson | fromjson", "getpath([\"a\",\"b\"])", "paths(type == \"number\")",
    "to_entries | from_entries", "with_entries(.value |= tostring)", "group_by(.a) | map(length)", "[.[]? | numbers] | add / length?",
    "min_by(.a)?, max_by(.a)?", "indices(1)", "indices(\"a\")", "inside([1,2,3])", "contains([1])", "contains({a: 1})", "contains(\"a\")",
    "limit(0; @@)", "limit(-1; @@)", "first(empty)", "nth(1; @@)", "[.[]?] | .[1:]", "tostream | select(length == 2)", "ascii(65)?",
    "implode?", "getpath([0,1])?", "try error catch .", "try error(null) catch .", "try error({a:1}) catch .a", ".[\"a\",\"b\"]?",
    ".[0,1]?", "{(.[]?|tostring): 1}", "{a: (1,2), b: (3,4)}", "[.[]? as $x | $x | @@]", "if @@ then @@ elif @@ then @@ else @@ end",
    "if @@ then @@ end", "@@ and @@", "@@ or @@", "@@ // @@", "-(@@)", "@@ + @@", "@@ - @@", "@@ * @@", "@@ / @@", "@@ % @@", "@@ == @@",
    "@@ < @@", "@@ >= @@", "[@@, @@] | sort", "[@@, @@] | unique", "{a: @@} * {a: {b: @@}}", "$x?", "ltrimstr(\"a\") | rtrimstr(\"b\")",
    "splits(\", \")?", "significand?", "logb?", "gamma?", "frexp?", "modf?", "ldexp(@@; @@)?", "scalb(@@; @@)?", "nearbyint?", "cbrt?",
    "getpath([\"a\"]) as $v | $v", "env.HOME | type", "@yaml?", "@props?", 
    "omit(@@)?", 
    "todate?", "now | type", "localtime? | type", 
    "getpath([\"a\",0,\"b\"])", "ascii_downcase?", "@dsv(\"|\")?", "@urid?", "ltrimstr(\"é\")",
    "splits(\"é\")?", "test(\"A\"; \"i\")?", "capture(\"(?<x>a)\")?", "sub(\"a\"; \"b\")?", "gsub(\"\"; \"-\")?", "scan(\"a\")?",
    "match(\"a\"; \"g\")?", "[match(\"\"; \"g\")?] | length",
];

// ---------------------------------------------------------------------------------------
// running the two real evaluators
// ---------------------------------------------------------------------------------------

fn end_json(k: &str, v: Value, l: &str, c: i64) -> Value {
    json!({"k": k, "v": v, "l": l, "c": c})
}

fn end_of_control(c: &Control) -> Value {
    match c {
        Control::Error(e) => end_of_error(e),
        Control::Break(l) => end_json("brk", json!({"t":"null"}), l, 0),
        Control::Halt(code) => end_json("halt", json!({"t":"null"}), "", *code as i64),
    }
}

fn end_of_error(e: &EvalError) -> Value {
    end_json("err", own_to_enc(&e.clone().payload()), "", 0)
}

pub fn ok_end() -> Value {
    end_json("ok", json!({"t":"null"}), "", 0)
}

fn outcome(outs: Vec<OwnedValue>, end: Value) -> Value {
    json!({"out": outs.iter().map(own_to_enc).collect::<Vec<_>>(), "end": end})
}

pub fn panic_outcome() -> Value {
    json!({"out": [], "end": end_json("panic", json!({"t":"null"}), "", 0)})
}

/// library evaluator `jq::eval`
pub fn run_full(expr: &Expr, json_text: &[u8]) -> Value {
    let r = guarded(|| {
        let index = JsonIndex::build(json_text);
        let cursor = index.root(json_text);
        let res: QueryResult<Vec<u64>> = jq::eval::<Vec<u64>, JqSemantics>(expr, cursor);
        let end = match &res {
            QueryResult::Error(e) => end_of_error(e),
            QueryResult::Break(l) => end_json("brk", json!({"t":"null"}), l, 0),
            QueryResult::Halt(c) => end_json("halt", json!({"t":"null"}), "", *c as i64),
            QueryResult::Partial(_, c) => end_of_control(c),
            _ => ok_end(),
        };
        outcome(res.collect_owned(), end)
    });
    r.unwrap_or_else(|_| panic_outcome())
}

/// generic evaluator used by the CLI
pub fn run_generic(expr: &Expr, json_text: &[u8]) -> Value {
    let r = guarded(|| {
        let index = JsonIndex::build(json_text);
        let cursor = index.root(json_text);
        let res = eval_generic::eval_with_cursor(expr, cursor);
        match res {
            GenericResult::LazySeq(seq) => match seq.materialize_atomic() {
                Ok(v) => outcome(vec![v], ok_end()),
                Err(c) => outcome(vec![], end_of_control(&c)),
            },
            other => {
                let end = match &other {
                    GenericResult::Error(e) => end_of_error(e),
                    GenericResult::Break(l) => end_json("brk", json!({"t":"null"}), l, 0),
                    GenericResult::Halt(c) => end_json("halt", json!({"t":"null"}), "", *c as i64),
                    GenericResult::Partial(_, c) => end_of_control(c),
                    _ => ok_end(),
                };
                outcome(other.collect_owned(), end)
            }
        }
    });
    r.unwrap_or_else(|_| panic_outcome())
}

pub fn parse_prog(text: &str) -> Result<Expr, String> {
    match guarded(|| jq::parse(text)) {
        Ok(Ok(e)) => Ok(e),
        Ok(Err(e)) => Err(format!("{e}")),
        Err(p) => Err(format!("PANIC {p}")),
    }
}

// ---------------------------------------------------------------------------------------
// the CLI as a third observation point
// ---------------------------------------------------------------------------------------

/// Run `succinctly jq -c <prog>` on `input` (stdin).  Outcome in the same shape as the in-process
/// runs: stdout lines parsed back into values; end = ok | err (v = the message text after
/// "jq: error (at ...): ", with " (not a string)" kept as a prefix marker) | halt (exit code) .
pub fn run_cli(cli: &str, prog: &str, input: &str) -> Value {
    use std::io::Write;
    use std::process::{Command, Stdio};
    let mut child = match Command::new(cli).args(["jq", "-c", prog]).stdin(Stdio::piped()).stdout(Stdio::piped()).stderr(Stdio::piped()).spawn() {
        Ok(c) => c,
        Err(e) => die(&format!("cannot spawn {cli}: {e}")),
    };
    child.stdin.take().unwrap().write_all(input.as_bytes()).ok();
    let out = child.wait_with_output().unwrap_or_else(|e| die(&format!("cli wait: {e}")));
    let stdout = String::from_utf8_lossy(&out.stdout).to_string();
    let stderr = String::from_utf8_lossy(&out.stderr).to_string();
    let mut vals = vec![];
    let mut unparsable = false;
    for ln in stdout.lines() {
        match parse_v(ln) {
            Some(v) => vals.push(v.enc()),
            None => unparsable = true,
        }
    }
    let code = out.status.code().unwrap_or(-1) as i64;
    let msg_line = stderr.lines().find(|l| l.starts_with("jq: error")).map(|s| s.to_string());
    let end = if unparsable {
        end_json("garbled", json!({"t":"str","cp":cps(&stdout)}), "", code)
    } else if let Some(m) = msg_line {
        // "jq: error (at <stdin>:N): msg"  |  "jq: error (at <stdin>:N) (not a string): json"
        let rest = m.trim_start_matches("jq: error");
        let rest = rest.trim_start();
        let rest = if rest.starts_with("(at ") { rest.split_once(')').map(|x| x.1).unwrap_or(rest) } else { rest };
        let (nas, text) = if let Some(t) = rest.strip_prefix(" (not a string): ") {
            (1, t)
        } else {
            (0, rest.strip_prefix(": ").unwrap_or(rest))
        };
        json!({"k":"err","v":{"t":"str","cp":cps(text)},"l":"","c":nas})
    } else if code != 0 {
        end_json("halt", json!({"t":"null"}), "", code)
    } else {
        ok_end()
    };
    json!({"out": vals, "end": end, "stderr": stderr.chars().take(300).collect::<String>()})
}

// ---------------------------------------------------------------------------------------
// repo `Expr` -> spec AST (C24 calibration): None when any node is outside the fragment
// ---------------------------------------------------------------------------------------

fn pipe_all(mut xs: Vec<Ast>) -> Ast {
    let mut acc = xs.remove(0);
    for x in xs {
        acc = pipe(acc, x);
    }
    acc
}

fn lit_num(text: &str) -> Option<Ast> {
    if num_spelling_is_canonical(text) || text.parse::<i64>().map(|i| i.abs() < (1 << 30) && i.to_string() == text).unwrap_or(false) {
        Some(Ast::Lit(V::Num(text.to_string())))
    } else {
        None
    }
}

pub fn expr_to_ast(e: &Expr) -> Option<Ast> {
    use jq::{ArithOp, Builtin as B, CompareOp, Literal, ObjectKey, Pattern};
    let bx = |x: &Expr| expr_to_ast(x).map(Box::new);
    Some(match e {
        Expr::Identity => Ast::Id,
        Expr::Field(n) => Ast::Field(n.clone()),
        Expr::Index(i) => Ast::Idx(b(Ast::Id), b(lit_i(*i))),
        Expr::Iterate => Ast::Iter,
        Expr::IndexExpr { target, key } => Ast::Idx(bx(target)?, bx(key)?),
        Expr::Optional(x) => Ast::Opt(bx(x)?),
        Expr::Pipe(xs) => {
            if xs.is_empty() {
                return None;
            }
            let mut v = vec![];
            for x in xs {
                v.push(expr_to_ast(x)?);
            }
            pipe_all(v)
        }
        Expr::Comma(xs) => {
            if xs.is_empty() {
                return None;
            }
            let mut it = xs.iter();
            let mut acc = expr_to_ast(it.next().unwrap())?;
            for x in it {
                acc = Ast::Comma(b(acc), bx(x)?);
            }
            acc
        }
        Expr::Array(inner) => match &**inner {
            Expr::Comma(xs) if xs.is_empty() => Ast::Arr0,
            x => Ast::Arr(bx(x)?),
        },
        Expr::Object(entries) => {
            let mut kv = vec![];
            for en in entries {
                let k = match &en.key {
                    ObjectKey::Literal(s) => lit_s(s),
                    ObjectKey::Expr(x) => expr_to_ast(x)?,
                };
                kv.push((k, expr_to_ast(&en.value)?));
            }
            Ast::Obj(kv)
        }
        Expr::Literal(l) => match l {
            Literal::Null => Ast::Lit(V::Null),
            Literal::Bool(x) => Ast::Lit(V::Bool(*x)),
            Literal::NumberLiteral(_, t) => lit_num(t)?,
            Literal::Int(i) => lit_num(&i.to_string())?,
            Literal::Float(_) => return None,
            Literal::String(s) => Ast::Lit(V::Str(s.clone())),
        },
        Expr::RecursiveDescent => call0(".."),
        Expr::Paren(x) => expr_to_ast(x)?,
        Expr::Arithmetic { op, left, right } => {
            let o = match op {
                ArithOp::Add => "+",
                ArithOp::Sub => "-",
                ArithOp::Mul(f) => {
                    if *f != Default::default() {
                        return None;
                    }
                    "*"
                }
                ArithOp::Div => "/",
                ArithOp::Mod => "%",
            };
            Ast::Bin(o, bx(left)?, bx(right)?)
        }
        Expr::Negate(x) => Ast::Neg(bx(x)?),
        Expr::Compare { op, left, right } => {
            let o = match op {
                CompareOp::Eq => "==",
                CompareOp::Ne => "!=",
                CompareOp::Lt => "<",
                CompareOp::Le => "<=",
                CompareOp::Gt => ">",
                CompareOp::Ge => ">=",
            };
            Ast::Cmp(o, bx(left)?, bx(right)?)
        }
        Expr::And(l, r) => Ast::And(bx(l)?, bx(r)?),
        Expr::Or(l, r) => Ast::Or(bx(l)?, bx(r)?),
        Expr::Not => call0("not"),
        Expr::Alternative(l, r) => Ast::Alt(bx(l)?, bx(r)?),
        Expr::If { cond, then_branch, else_branch } => Ast::If(bx(cond)?, bx(then_branch)?, bx(else_branch)?),
        Expr::Try { expr, catch } => Ast::Try(
            bx(expr)?,
            match catch {
                Some(c) => Some(bx(c)?),
                None => None,
            },
        ),
        Expr::Error(None) => Ast::Err0,
        Expr::Error(Some(x)) => Ast::Err(bx(x)?),
        Expr::As { expr, var, body } => Ast::As(bx(expr)?, var.clone(), bx(body)?),
        Expr::Var(x) => {
            if x.starts_with("__") || x == "ENV" {
                return None;
            }
            Ast::Var(x.clone())
        }
        Expr::Reduce { input, patterns, init, update } => match patterns.as_slice() {
            [Pattern::Var(x)] => Ast::Reduce(bx(input)?, x.clone(), bx(init)?, bx(update)?),
            _ => return None,
        },
        Expr::Foreach { input, patterns, init, update, extract } => match patterns.as_slice() {
            [Pattern::Var(x)] => Ast::Foreach(
                bx(input)?,
                x.clone(),
                bx(init)?,
                bx(update)?,
                match extract {
                    Some(c) => Some(bx(c)?),
                    None => None,
                },
            ),
            _ => return None,
        },
        Expr::Limit { n, expr } => call("limit", vec![expr_to_ast(n)?, expr_to_ast(expr)?]),
        Expr::FirstExpr(x) => call("first", vec![expr_to_ast(x)?]),
        Expr::LastExpr(x) => call("last", vec![expr_to_ast(x)?]),
        Expr::Range { from, to, step } => {
            if step.is_some() {
                return None;
            }
            match to {
                None => call("range", vec![expr_to_ast(from)?]),
                Some(t) => call("range", vec![expr_to_ast(from)?, expr_to_ast(t)?]),
            }
        }
        Expr::Label { name, body } => Ast::Label(name.clone(), bx(body)?),
        Expr::Break(n) => Ast::Break(n.clone()),
        Expr::Builtin(bi) => {
            let c1 = |f: &str, x: &Expr| expr_to_ast(x).map(|a| call(f, vec![a]));
            let c2 = |f: &str, x: &Expr, y: &Expr| Some(call(f, vec![expr_to_ast(x)?, expr_to_ast(y)?]));
            match bi {
                B::Type => call0("type"),
                B::Values => call0("values"),
                B::Nulls => call0("nulls"),
                B::Booleans => call0("booleans"),
                B::Numbers => call0("numbers"),
                B::Strings => call0("strings"),
                B::Arrays => call0("arrays"),
                B::Objects => call0("objects"),
                B::Iterables => call0("iterables"),
                B::Scalars => call0("scalars"),
                B::Length => call0("length"),
                B::Utf8ByteLength => call0("utf8bytelength"),
                B::Keys => call0("keys"),
                B::KeysUnsorted => call0("keys_unsorted"),
                B::Has(x) => c1("has", x)?,
                B::In(x) => c1("in", x)?,
                B::Select(x) => c1("select", x)?,
                B::Empty => call0("empty"),
                B::Map(x) => c1("map", x)?,
                B::Add => call0("add"),
                B::Any => call0("any"),
                B::AnyF(x) => c1("any", x)?,
                B::AnyCond(x, y) => c2("any", x, y)?,
                B::All => call0("all"),
                B::AllF(x) => c1("all", x)?,
                B::AllCond(x, y) => c2("all", x, y)?,
                B::Min => call0("min"),
                B::Max => call0("max"),
                B::MinBy(x) => c1("min_by", x)?,
                B::MaxBy(x) => c1("max_by", x)?,
                B::AsciiDowncase => call0("ascii_downcase"),
                B::AsciiUpcase => call0("ascii_upcase"),
                B::Ltrimstr(x) => c1("ltrimstr", x)?,
                B::Rtrimstr(x) => c1("rtrimstr", x)?,
                B::Startswith(x) => c1("startswith", x)?,
                B::Endswith(x) => c1("endswith", x)?,
                B::Join(x) => c1("join", x)?,
                B::First => call0("first"),
                B::Last => call0("last"),
                B::Reverse => call0("reverse"),
                B::Flatten => call0("flatten"),
                B::FlattenDepth(x) => c1("flatten", x)?,
                B::GroupBy(x) => c1("group_by", x)?,
                B::Unique => call0("unique"),
                B::UniqueBy(x) => c1("unique_by", x)?,
                B::Sort => call0("sort"),
                B::SortBy(x) => c1("sort_by", x)?,
                B::ToEntries => call0("to_entries"),
                B::FromEntries => call0("from_entries"),
                B::WithEntries(x) => c1("with_entries", x)?,
                B::ToString => call0("tostring"),
                B::ToJson => call0("tojson"),
                B::Explode => call0("explode"),
                B::Implode => call0("implode"),
                B::ToStream => call0("tostream"),
                B::FromStream(x) => c1("fromstream", x)?,
                B::GetPath(x) => c1("getpath", x)?,
                B::Recurse => call0("recurse"),
                B::Paths => call0("paths"),
                B::PathsFilter(x) => c1("paths", x)?,
                B::LeafPaths => call0("leaf_paths"),
                B::SetPath(x, y) => c2("setpath", x, y)?,
                B::DelPaths(x) => c1("delpaths", x)?,
                B::Limit(x, y) => c2("limit", x, y)?,
                B::FirstStream(x) => c1("first", x)?,
                B::LastStream(x) => c1("last", x)?,
                B::IsEmpty(x) => c1("isempty", x)?,
                B::NullLit => Ast::Lit(V::Null),
                _ => return None,
            }
        }
        _ => return None,
    })
}

// ---------------------------------------------------------------------------------------
// static classification used by known-finding signatures: builtins with VALUE arguments whose
// argument expression may yield other than exactly one output (jq fans out: cartesian product)
// ---------------------------------------------------------------------------------------

/// may this expression yield zero or several outputs? (syntactic over-approximation)
pub fn maybe_multi(a: &Ast) -> bool {
    match a {
        Ast::Id | Ast::Field(_) | Ast::Lit(_) | Ast::Arr0 | Ast::Arr(_) | Ast::Var(_) => false,
        Ast::Comma(..) | Ast::Iter | Ast::Opt(_) | Ast::Try(..) | Ast::Err0 | Ast::Err(_) | Ast::Break(_) | Ast::Foreach(..) | Ast::Raw(_) => true,
        Ast::Idx(x, y) | Ast::Pipe(x, y) | Ast::Bin(_, x, y) | Ast::Cmp(_, x, y) | Ast::And(x, y) | Ast::Or(x, y) | Ast::Alt(x, y) => {
            maybe_multi(x) || maybe_multi(y)
        }
        Ast::Neg(x) | Ast::Label(_, x) => maybe_multi(x),
        Ast::Obj(kv) => kv.iter().any(|(k, v)| maybe_multi(k) || maybe_multi(v)),
        Ast::If(c, t, e) => maybe_multi(c) || maybe_multi(t) || maybe_multi(e),
        Ast::Reduce(_, _, i, _) => maybe_multi(i),
        Ast::As(s, _, bd) => maybe_multi(s) || maybe_multi(bd),
        Ast::Call(f, args) => match (f.as_str(), args.len()) {
            ("range" | "limit" | "first" | "last" | "select" | "paths" | "fromstream" | "error", _) => true,
            ("empty" | "paths" | "leaf_paths" | ".." | "recurse" | "tostream" | "values" | "nulls" | "booleans" | "numbers" | "strings"
            | "arrays" | "objects" | "iterables" | "scalars" | "error", 0) => true,
            (_, 0) => false,
            // value-argument builtins fan out over their arguments
            ("has" | "in" | "getpath" | "setpath" | "delpaths" | "join" | "flatten" | "startswith" | "endswith" | "ltrimstr" | "rtrimstr", _) => {
                args.iter().any(maybe_multi)
            }
            _ => false,
        },
    }
}

/// causes (known-defect classes) for every value-argument builtin call with a possibly
/// multi-output argument somewhere in the program
pub fn multi_arg_causes(a: &Ast, out: &mut std::collections::BTreeSet<String>) {
    let mut kids: Vec<&Ast> = vec![];
    match a {
        Ast::Idx(x, y) | Ast::Pipe(x, y) | Ast::Comma(x, y) | Ast::Bin(_, x, y) | Ast::Cmp(_, x, y) | Ast::And(x, y) | Ast::Or(x, y)
        | Ast::Alt(x, y) => kids.extend([&**x, &**y]),
        Ast::Err(x) => {
            if maybe_multi(x) {
                out.insert("error_of_empty_argument".into());
            }
            kids.push(x)
        }
        Ast::Opt(x) | Ast::Arr(x) | Ast::Neg(x) | Ast::Label(_, x) => kids.push(x),
        Ast::Obj(kv) => kv.iter().for_each(|(k, v)| kids.extend([k, v])),
        Ast::If(c, t, e) => kids.extend([&**c, &**t, &**e]),
        Ast::Try(x, c) => {
            kids.push(x);
            if let Some(c) = c {
                kids.push(c)
            }
        }
        Ast::Reduce(s, _, i, u) => kids.extend([&**s, &**i, &**u]),
        Ast::Foreach(s, _, i, u, e) => {
            kids.extend([&**s, &**i, &**u]);
            if let Some(e) = e {
                kids.push(e)
            }
        }
        Ast::As(s, _, bd) => kids.extend([&**s, &**bd]),
        Ast::Call(f, args) => {
            kids.extend(args.iter());
            let m: Vec<bool> = args.iter().map(maybe_multi).collect();
            match (f.as_str(), args.len()) {
                ("setpath", 2) => {
                    if m[1] {
                        out.insert("setpath_multi_output_value".into());
                    }
                    if m[0] {
                        out.insert("setpath_delpaths_multi_output_path".into());
                    }
                }
                ("delpaths", 1) if m[0] => {
                    out.insert("setpath_delpaths_multi_output_path".into());
                }
                ("range", _) if m.iter().any(|x| *x) => {
                    out.insert("range_multi_output_bounds".into());
                }
                ("getpath" | "has" | "ltrimstr" | "rtrimstr" | "startswith" | "endswith" | "join" | "flatten", 1) if m[0] => {
                    out.insert("value_arg_first_output_only".into());
                }
                ("limit", 2) if m[0] => {
                    out.insert("value_arg_first_output_only".into());
                }
                _ => {}
            }
        }
        _ => {}
    }
    for k in kids {
        multi_arg_causes(k, out);
    }
}
