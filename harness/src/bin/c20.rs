//! C20 — DSV index does not depend on the indexing engine.
//!
//! usage: c20 record <out.ndjson> seed=N texts=N [big=N]
//!        c20 replay <gen.ndjson> <mismatch.ndjson>
//!
//! record events (validated by spec/Trace_DsvIndex.tla, which steps Dsv!QuoteStep over `b`):
//!   {"e":"text","fam":..,"d":..,"q":..,"n":..,"len":L,"b":[bytes]}
//!   {"e":"index","eng":"scalar|sse2|avx2|bmi2|dispatch","mk":[marker offsets],"nl":[newline offsets],
//!    "mc":marker_count,"rc":row_count,"tl":text_len,"empty":0|1}      (-2 everywhere = build panicked)
//!   {"e":"q","eng":..,"op":"mrank|mselect|nrank|nselect","a":arg (-1 = huge),"r":result (-1 None, -2 panic)}
//!
//! replay input (one line per class string, printed by spec/Gen_Dsv.tla):
//!   {"cls":[0..3 ..],"ms":[..],"ns":[..],"rows":[[[s,e]..]..]}
//! every string is placed across the 64-byte chunk boundary at every cut, after an other-byte
//! prefix, after a prefix holding a closed quoted region, and across the second boundary after a
//! quoted region that spans the first one, for several configurations; each
//! engine's marker/newline offsets must be  offset + ms / offset + ns.
#[path = "dsv_common/mod.rs"]
mod common;
use common::*;
use succinctly::dsv::{self, DsvConfig, DsvIndex};
use verif_harness::*;

type Engine = (&'static str, fn(&[u8], &DsvConfig) -> DsvIndex);

fn engines() -> Vec<Engine> {
    let mut v: Vec<Engine> = vec![("scalar", dsv::build_index_scalar)];
    #[cfg(target_arch = "x86_64")]
    {
        v.push(("sse2", dsv::simd::sse2::build_index_simd));
        if is_x86_feature_detected!("avx2") {
            v.push(("avx2", dsv::simd::avx2::build_index_simd));
        }
        if is_x86_feature_detected!("avx2") && is_x86_feature_detected!("bmi2") {
            v.push(("bmi2", dsv::simd::bmi2::build_index_simd));
        }
    }
    v.push(("dispatch", dsv::build_index));
    v
}

fn bits_of(words: &[u64]) -> Vec<u64> {
    let mut out = vec![];
    for (i, &w) in words.iter().enumerate() {
        let mut x = w;
        while x != 0 {
            out.push(i as u64 * 64 + x.trailing_zeros() as u64);
            x &= x - 1;
        }
    }
    out
}

/// indices k such that mark k is the first one after >= 1 whole 64-bit words without marks
fn gap_ks(ps: &[u64]) -> Vec<u64> {
    let mut v = vec![];
    let mut prev_word: i64 = -1;
    for (j, &p) in ps.iter().enumerate() {
        let w = (p / 64) as i64;
        if w - prev_word >= 2 {
            v.push(j as u64);
        }
        prev_word = w;
    }
    v
}

const EDGE_LENS: [usize; 24] = [
    0, 1, 2, 3, 31, 32, 33, 62, 63, 64, 65, 66, 127, 128, 129, 191, 192, 193, 255, 256, 257, 319, 320, 321,
];

fn gen_text(r: &mut Rng, c: &Cfg, fam: u64, big: bool) -> Vec<u8> {
    let mut t: Vec<u8> = vec![];
    if big {
        // lengths 64k +- 1 and other multiples of 64 +- 1, sparse specials, several long quoted regions
        // fam 98 = the run's last text: always 64 KiB +- 1
        let k = if fam == 98 { 1024 } else { *r.pick(&[1024usize, 1024, 1023, 512, 300, 77]) };
        let len = (64 * k + r.below(3) as usize) - 1;
        soup(r, c, len, 5, 1, 4, &mut t);
        for _ in 0..r.below(6) {
            // a quoted region spanning 0..5 chunks somewhere
            let span = r.below(6) as usize * 64 + r.below(64) as usize;
            if len > span + 2 {
                let p = r.below((len - span - 1) as u64) as usize;
                t[p] = c.q;
                t[p + span + 1] = c.q;
            }
        }
        return t;
    }
    match fam {
        0 => {
            let len = if r.coin() { *r.pick(&EDGE_LENS) } else { r.below(200) as usize };
            soup(r, c, len, 20, 12, 18, &mut t);
        }
        1 => {
            // quoted region spanning k chunks, opening quote at bit 63 / 0 / 1 / anywhere
            let chunk = r.below(3) as usize;
            let bit = *r.pick(&[63usize, 0, 1, 62, 31, 32]);
            let bit = if r.chance(1, 4) { r.below(64) as usize } else { bit };
            let p = chunk * 64 + bit;
            soup(r, c, p, 20, 0, 15, &mut t);
            if r.chance(1, 4) && p >= 2 {
                // an earlier closed quoted region
                let a = r.below(p as u64 - 1) as usize;
                let b = r.range(a as u64 + 1, p as u64 - 1) as usize;
                t[a] = c.q;
                t[b] = c.q;
            }
            t.push(c.q);
            let k = r.below(6) as usize;
            let span = match r.below(4) {
                0 => k * 64,
                1 => (k * 64).saturating_sub(1),
                2 => k * 64 + 1,
                _ => k * 64 + r.below(64) as usize,
            };
            soup(r, c, span, 30, 0, 30, &mut t);
            if !r.chance(1, 6) {
                t.push(c.q); // (else: never closed)
            }
            let tail = *r.pick(&[0usize, 1, 2, 5, 64, 70]);
            soup(r, c, tail, 25, 4, 25, &mut t);
        }
        2 => {
            // runs of consecutive quotes (odd and even) across chunk boundaries
            for _ in 0..r.range(1, 3) {
                let base = *r.pick(&[60usize, 61, 62, 63, 64, 65, 56, 0, 1]);
                soup(r, c, base, 20, 0, 15, &mut t);
                let run = r.range(1, 9) as usize;
                t.extend(std::iter::repeat(c.q).take(run));
                let after = r.below(12) as usize;
                soup(r, c, after, 30, 5, 30, &mut t);
            }
        }
        3 => {
            // dense: every byte special
            let len = *r.pick(&[1usize, 2, 63, 64, 65, 128, 129, 130]);
            match r.below(5) {
                0 => t = vec![c.d; len],
                1 => t = vec![c.n; len],
                2 => t = vec![c.q; len],
                3 => {
                    for i in 0..len {
                        t.push([c.q, c.d, c.q, c.n][i % 4]);
                    }
                }
                _ => {
                    for _ in 0..len {
                        t.push([c.d, c.n, c.q][r.below(3) as usize]);
                    }
                }
            }
        }
        4 => {
            // CSV-like rows with quoted fields holding delimiters, newlines and doubled quotes
            let others = c.others();
            for _ in 0..r.range(1, 12) {
                for f in 0..r.range(1, 6) {
                    if f > 0 {
                        t.push(c.d);
                    }
                    if r.chance(1, 3) {
                        t.push(c.q);
                        for _ in 0..r.below(40) {
                            match r.below(8) {
                                0 => t.push(c.d),
                                1 => t.push(c.n),
                                2 => {
                                    t.push(c.q);
                                    t.push(c.q);
                                }
                                _ => t.push(*r.pick(&others)),
                            }
                        }
                        t.push(c.q);
                    } else {
                        for _ in 0..r.below(9) {
                            t.push(*r.pick(&others));
                        }
                    }
                }
                t.push(c.n);
            }
            if r.coin() {
                t.pop();
            }
        }
        5 => {
            // only the byte at a chunk edge is special
            let len = *r.pick(&[64usize, 65, 128, 129, 192]);
            soup(r, c, len, 0, 0, 0, &mut t);
            for &p in &[0usize, 63, 64, 127, 128] {
                if p < len && r.coin() {
                    t[p] = *r.pick(&[c.d, c.q, c.n]);
                }
            }
        }
        7 | 8 => {
            // NO quote byte at all (engines may take a quote-free fast path): fixed-size records
            // and delimiters / newlines at every lane edge (bits 15,16,31,32,47,48,63,0)
            let len = *r.pick(&[64usize, 65, 96, 127, 128, 129, 192, 200, 256, 320, 400]);
            soup(r, c, len, 0, 0, 0, &mut t);
            if r.coin() {
                let rec = *r.pick(&[8usize, 16, 32, 64, 24]);
                let mut p = rec - 1;
                while p < len {
                    t[p] = c.n;
                    if p >= 3 && r.coin() {
                        t[p - 2] = c.d;
                    }
                    p += rec;
                }
            } else {
                for chunk in 0..(len / 64 + 1) {
                    for &bit in &[15usize, 16, 31, 32, 47, 48, 63, 0, 1, 62] {
                        let p = chunk * 64 + bit;
                        if p < len && r.chance(1, 3) {
                            t[p] = if r.coin() { c.n } else { c.d };
                        }
                    }
                }
            }
        }
        _ => {
            let len = r.below(4) as usize;
            soup(r, c, len, 30, 25, 30, &mut t);
        }
    }
    t
}

fn record(args: &Args) {
    let mut r = Rng::new(args.seed());
    let texts = args.u64("texts", 300);
    let nbig = args.u64("big", 4);
    let mut tr = Trace::create(&args.pos[1]);
    let engs = engines();
    for i in 0..texts {
        let c = cfg_for(i % 40, &mut r);
        let big = i >= texts - nbig.min(texts);
        let fam = if i + 1 == texts && big { 98 } else { r.below(10) };
        let text = gen_text(&mut r, &c, fam, big);
        let len = text.len();
        tr.emit(json!({"e":"text","fam": if big { 99 } else { fam },"d":c.d,"q":c.q,"n":c.n,"len":len,"b":bytes_json(&text)}));
        let cfg = c.dsv();

        // queries shared by all engines
        let mut pos: Vec<u64> = vec![0, 1, len as u64, len as u64 + 1, u64::MAX, 1 << 33];
        if len > 0 {
            pos.push(len as u64 - 1);
        }
        for _ in 0..8 {
            let w = r.below(len as u64 / 64 + 2);
            for dlt in [0i64, -1, 1] {
                let p = (w * 64) as i64 + dlt;
                if p >= 0 {
                    pos.push(p as u64);
                }
            }
            pos.push(r.below(len as u64 + 1));
        }
        r.shuffle(&mut pos);
        pos.truncate(if big { 10 } else { 14 });
        let ks_extra: Vec<u64> = (0..4).map(|_| r.below(len as u64 + 2)).collect();

        for (name, f) in &engs {
            let t2 = text.clone();
            let cfg2 = cfg.clone();
            let built = guarded(move || f(&t2, &cfg2));
            let idx = match built {
                Ok(ix) => ix,
                Err(_) => {
                    tr.emit(json!({"e":"index","eng":name,"mk":[],"nl":[],"mc":-2,"rc":-2,"tl":-2,"empty":-2}));
                    continue;
                }
            };
            let lw = idx.as_lightweight();
            let mk = bits_of(&lw.markers);
            let nl = bits_of(&lw.newlines);
            tr.emit(json!({"e":"index","eng":name,"mk":mk,"nl":nl,"mc":idx.marker_count(),"rc":idx.row_count(),
                           "tl":lw.text_len,"empty":i32::from(idx.is_empty())}));
            for &p in &pos {
                let a = clamp_i(p);
                let pu = p as usize;
                let m = guarded(|| idx.markers_rank1(pu));
                tr.emit(json!({"e":"q","eng":name,"op":"mrank","a":a,"r":m.map(|v| v as i64).unwrap_or(-2)}));
                let n = guarded(|| idx.newlines_rank1(pu));
                tr.emit(json!({"e":"q","eng":name,"op":"nrank","a":a,"r":n.map(|v| v as i64).unwrap_or(-2)}));
            }
            let mc = mk.len() as u64;
            let nc = nl.len() as u64;
            let mut ks: Vec<u64> = vec![0, mc, mc + 1, nc, nc + 1, u64::MAX];
            if mc > 0 {
                ks.push(mc - 1);
                ks.push(mc / 2);
            }
            if nc > 0 {
                ks.push(nc - 1);
                ks.push(nc / 2);
            }
            for &k in &ks_extra {
                ks.push(k % (mc + 2));
            }
            // the first mark after every run of whole index words without any mark (duplicate
            // entries in the cumulative rank array: the word lookup of select must be stable)
            for ps in [&mk, &nl] {
                let g = gap_ks(ps);
                for &k in g.iter().take(4).chain(g.iter().rev().take(3)) {
                    ks.push(k);
                }
            }
            for &k in &ks {
                let a = clamp_i(k);
                let ku = k as usize;
                let m = guarded(|| idx.markers_select1(ku));
                tr.emit(json!({"e":"q","eng":name,"op":"mselect","a":a,
                               "r":m.map(|v| v.map(|x| x as i64).unwrap_or(-1)).unwrap_or(-2)}));
                let n = guarded(|| idx.newlines_select1(ku));
                tr.emit(json!({"e":"q","eng":name,"op":"nselect","a":a,
                               "r":n.map(|v| v.map(|x| x as i64).unwrap_or(-1)).unwrap_or(-2)}));
            }
        }
    }
    let n = tr.finish();
    println!("{{\"events\":{n},\"engines\":{}}}", engs.len());
}

fn arr_u64(v: &Value) -> Vec<u64> {
    v.as_array().map(|a| a.iter().map(|x| x.as_u64().unwrap()).collect()).unwrap_or_default()
}

fn replay(args: &Args) {
    let beh = read_ndjson(&args.pos[1]);
    let mut out = Trace::create(&args.pos[2]);
    let engs = engines();
    let mut r = Rng::new(args.seed());
    let cfgs: Vec<Cfg> = vec![STOCK[0], STOCK[3], Cfg { d: 0x00, q: 0x80, n: 0xFF }, Cfg { d: 0xFF, q: 0x00, n: 0x7F },
                              seeded_cfg(&mut r), seeded_cfg(&mut r)];
    let mut builds = 0u64;
    let mut placements = 0u64;
    for b in &beh {
        let cls = arr_u64(&b["cls"]);
        let ms = arr_u64(&b["ms"]);
        let ns = arr_u64(&b["ns"]);
        let l = cls.len();
        for (ci, c) in cfgs.iter().enumerate() {
            let others = c.others();
            let o = others[(ci + l) % others.len()];
            // every cut: the string occupies [64 - j, 64 - j + l) for j in 0..=l
            for j in 0..=l {
                for variant in 0..3 {
                    // variant 2: across the SECOND boundary, after a quoted region that is opened in
                    // chunk 0 and closed in chunk 1 (carry 1 into a chunk holding one quote)
                    let off = if variant == 2 { 128 - j } else { 64 - j };
                    let mut text = vec![o; off];
                    if variant == 1 {
                        if off < 4 + j {
                            continue;
                        }
                        // a closed quoted region holding a delimiter and a newline in the prefix
                        text[0] = c.q;
                        text[1] = c.d;
                        text[2] = c.n;
                        text[3] = c.q;
                    }
                    if variant == 2 {
                        text[10 + ci] = c.q;
                        text[11 + ci] = c.d;
                        text[63] = c.n;
                        text[64] = c.d;
                        text[70 + ci] = c.q;
                    }
                    for &k in &cls {
                        text.push(c.class_byte(k, o));
                    }
                    // trailing other bytes up to a second boundary for some cases
                    if (j + ci) % 3 == 0 {
                        text.extend(std::iter::repeat(o).take(64 - (text.len() % 64)));
                    }
                    placements += 1;
                    let exp_m: Vec<u64> = ms.iter().map(|p| p + off as u64).collect();
                    let exp_n: Vec<u64> = ns.iter().map(|p| p + off as u64).collect();
                    for (name, f) in &engs {
                        builds += 1;
                        let t2 = text.clone();
                        let cfg2 = c.dsv();
                        let res = guarded(move || {
                            let ix = f(&t2, &cfg2);
                            let lw = ix.as_lightweight();
                            (bits_of(&lw.markers), bits_of(&lw.newlines))
                        });
                        let ok = match &res {
                            Ok((m, n)) => *m == exp_m && *n == exp_n,
                            Err(_) => false,
                        };
                        if !ok && out.n < 200 {
                            let (gm, gn) = res.unwrap_or((vec![], vec![]));
                            out.emit(json!({"eng":name,"d":c.d,"q":c.q,"n":c.n,"cls":cls,"off":off,"variant":variant,
                                            "text":bytes_json(&text),"exp_mk":exp_m,"exp_nl":exp_n,"got_mk":gm,"got_nl":gn}));
                        }
                    }
                }
            }
        }
    }
    let n = out.finish();
    println!("{{\"behaviours\":{},\"placements\":{placements},\"builds\":{builds},\"mismatches\":{n}}}", beh.len());
}

fn main() {
    let args = Args::parse();
    silence_panics();
    match args.pos.first().map(|s| s.as_str()) {
        Some("record") if args.pos.len() >= 2 => record(&args),
        Some("replay") if args.pos.len() >= 3 => replay(&args),
        _ => die("usage: c20 record <out> seed=N texts=N | c20 replay <gen.ndjson> <mismatches.ndjson>"),
    }
}
