//! C05 — JSON semi-index does not depend on the indexing engine.
//!
//! usage:
//!   c05 tables <out.ndjson>
//!       dump json::pfsm_tables::{TRANSITION_TABLE, PHI_TABLE}: one event per byte value
//!       {"e":"tab","b":byte,"tt":[4 raw bytes],"pt":[4 raw bytes],"xt":[..],"xp":[..]}
//!       (xt/xp: through PfsmState::extract_next_state / extract_phi) — validated exhaustively
//!       against JsonScan!StdStep by spec/Trace_JsonScan.tla
//!   c05 record <out.ndjson> seed=N inputs=N maxlen=N [mode=engines|index]
//!       {"e":"in","fam":..,"bytes":[..],"n":len}
//!       {"e":"out","enc":"std|simple","eng":..,"st":final state,"ib":[16-bit quarters of the IB
//!        words],"ibw":words,"bp":[16-bit quarters of the BP words],"bpw":words}    one per engine
//!   c05 replay <in.ndjson> <out.ndjson> offsets=N
//!       behaviours printed by TLC from spec/Gen_JsonScan.tla:
//!       {"bytes":[..],"std":{"s":..,"ib":[..],"bp":[..],"bpn":..},"simple":{...}}
//!       each is embedded at offsets 0..offsets (leading InJson-neutral padding, optional
//!       trailing padding neutral in the predicted final state) and run through every engine;
//!       mismatches are written to <out.ndjson>.
//!
//! Engines (all public API): standard: scalar = standard::build_semi_index_scalar,
//! pfsm = standard::build_semi_index, sse2 = simd::x86::.., avx2 = simd::avx2::.. (only when
//! the CPU has AVX2), dispatch = simd::build_semi_index_standard, index = JsonIndex::build;
//! simple: scalar = simple::build_semi_index, sse2, avx2, dispatch, index = SimpleJsonIndex::build.
#[path = "jscan_common/mod.rs"]
mod common;
use common::*;
use succinctly::json::pfsm_tables::{PfsmState, PHI_TABLE, TRANSITION_TABLE};
use succinctly::json::{simd, simple, standard};
use verif_harness::*;

#[derive(Clone, PartialEq, Debug)]
struct Obs {
    st: i64,
    ib: Vec<u64>,
    bp: Vec<u64>,
}

fn std_state(s: standard::State) -> i64 {
    match s {
        standard::State::InJson => 0,
        standard::State::InString => 1,
        standard::State::InEscape => 2,
        standard::State::InValue => 3,
    }
}

fn simple_state(s: simple::State) -> i64 {
    match s {
        simple::State::InJson => 0,
        simple::State::InString => 1,
        simple::State::InEscape => 2,
    }
}

fn have_avx2() -> bool {
    std::arch::is_x86_feature_detected!("avx2")
}

type Engine = (&'static str, &'static str, fn(&[u8]) -> Obs);

fn obs_std(s: standard::SemiIndex) -> Obs {
    Obs { st: std_state(s.state), ib: s.ib, bp: s.bp }
}
fn obs_simple(s: simple::SemiIndex) -> Obs {
    Obs { st: simple_state(s.state), ib: s.ib, bp: s.bp }
}

fn engines() -> Vec<Engine> {
    let mut v: Vec<Engine> = vec![
        ("std", "scalar", |b| obs_std(standard::build_semi_index_scalar(b))),
        ("std", "pfsm", |b| obs_std(standard::build_semi_index(b))),
        ("std", "sse2", |b| obs_std(simd::x86::build_semi_index_standard(b))),
        ("std", "dispatch", |b| obs_std(simd::build_semi_index_standard(b))),
        ("simple", "scalar", |b| obs_simple(simple::build_semi_index(b))),
        ("simple", "sse2", |b| obs_simple(simd::x86::build_semi_index_simple(b))),
        ("simple", "dispatch", |b| obs_simple(simd::build_semi_index_simple(b))),
    ];
    if have_avx2() {
        v.push(("std", "avx2", |b| obs_std(simd::avx2::build_semi_index_standard(b))));
        v.push(("simple", "avx2", |b| obs_simple(simd::avx2::build_semi_index_simple(b))));
    }
    v
}

// ---------------------------------------------------------------------------------------
// tables
// ---------------------------------------------------------------------------------------

fn pstate(i: u32) -> PfsmState {
    match i {
        0 => PfsmState::InJson,
        1 => PfsmState::InString,
        2 => PfsmState::InEscape,
        _ => PfsmState::InValue,
    }
}

fn tables(out: &str) {
    let mut tr = Trace::create(out);
    for b in 0..256usize {
        let t = TRANSITION_TABLE[b];
        let p = PHI_TABLE[b];
        let raw = |x: u32| -> Vec<u32> { (0..4).map(|s| (x >> (8 * s)) & 0xFF).collect() };
        let xt: Vec<u32> = (0..4).map(|s| PfsmState::extract_next_state(t, pstate(s)) as u32).collect();
        let xp: Vec<u32> = (0..4).map(|s| PfsmState::extract_phi(p, pstate(s)) as u32).collect();
        tr.emit(json!({"e":"tab","b":b,"tt":raw(t),"pt":raw(p),"xt":xt,"xp":xp,"r":xt[0]}));
    }
    let n = tr.finish();
    println!("{{\"events\":{n}}}");
}

// ---------------------------------------------------------------------------------------
// record
// ---------------------------------------------------------------------------------------

const INTERESTING: &[u8] = b"{}[],:\"\\\\\"\" \n\t09azAZ+-.eEtfn/@`_^;|~\x00\x7f\x80\xff";

fn gen_input(r: &mut Rng, maxlen: usize) -> (&'static str, Vec<u8>) {
    // boundary-seeking length/offset helper
    let near = |r: &mut Rng| -> usize {
        let base = *r.pick(&[16usize, 32, 48, 64, 96, 128, 192, 256, 512, 1024]);
        let d = r.below(7) as i64 - 3;
        ((base as i64 + d).max(0) as usize).min(maxlen)
    };
    match r.below(14) {
        0 | 1 => {
            let d = gen_doc(r, maxlen);
            ("valid", d.bytes)
        }
        12 | 13 => {
            // long strings: escapes / quotes placed at the edges of 16/32/64-byte chunks with
            // WHOLE chunks of plain in-string bytes in between (a chunk-skipping fast path must
            // carry the in-escape state across the chunks it skips)
            let c = *r.pick(&[16usize, 32, 32, 64]);
            let mut b: Vec<u8> = vec![];
            for _ in 0..r.below(3) {
                b.push(*r.pick(b" [{,"));
            }
            b.push(b'"');
            for _ in 0..r.range(1, 5) {
                // plain bytes up to a chosen residue of the chunk size, after 0..3 whole chunks
                let want = *r.pick(&[c - 1, c - 1, 0, c - 2, 1]);
                let whole = r.below(4) as usize * c;
                let mut n = (want + c - b.len() % c) % c + whole;
                if n > maxlen {
                    n = maxlen;
                }
                for _ in 0..n {
                    b.push(*r.pick(b"abcxyz 0123,:[]{}"));
                }
                match r.below(6) {
                    0 => b.extend_from_slice(b"\\n"),
                    1 => b.extend_from_slice(b"\\\""),
                    2 => b.extend_from_slice(b"\\\\"),
                    3 => b.extend_from_slice(b"\",\""),
                    4 => b.push(b'\\'),
                    _ => b.extend_from_slice(b"\\u00e9"),
                }
            }
            let whole = r.range(1, 3) as usize * c;
            let n = (c - b.len() % c) % c + whole;
            for _ in 0..n {
                b.push(b'p');
            }
            let tail: &[u8] = *r.pick(&[&b"\""[..], b"\",1]", b"\":2}", b"", b"\\\"\""]);
            b.extend_from_slice(tail);
            b.truncate(maxlen.max(64));
            ("longstr", b)
        }
        2 | 3 => {
            // mutated valid JSON
            let mut b = gen_doc(r, maxlen).bytes;
            let k = r.range(1, 4);
            for _ in 0..k {
                if b.is_empty() {
                    break;
                }
                let p = r.below(b.len() as u64) as usize;
                match r.below(5) {
                    0 => b[p] = *r.pick(INTERESTING),
                    1 => {
                        b.remove(p);
                    }
                    2 => b.insert(p, *r.pick(INTERESTING)),
                    3 => b.truncate(p),
                    _ => b[p] = r.below(256) as u8,
                }
            }
            ("mutated", b)
        }
        4 => {
            let n = if r.coin() { near(r) } else { r.below(maxlen as u64 + 1) as usize };
            ("random", (0..n).map(|_| r.below(256) as u8).collect())
        }
        5 | 6 => {
            let n = if r.coin() { near(r) } else { r.below(maxlen.min(600) as u64 + 1) as usize };
            ("soup", (0..n).map(|_| *r.pick(INTERESTING)).collect())
        }
        7 | 8 => {
            // escape / quote runs straddling a chunk boundary: pad (inside or outside a string)
            // up to just before a 16/32/64 multiple, then a run of backslashes and quotes
            let at = near(r).max(4);
            let instr = r.coin();
            let mut b: Vec<u8> = vec![];
            if instr {
                b.push(b'"');
            }
            while b.len() + 3 < at {
                b.push(if instr { b'x' } else { b' ' });
            }
            let k = r.range(0, 6);
            for _ in 0..k {
                b.push(b'\\');
            }
            let tail: &[u8] = *r.pick(&[&b"\""[..], b"\"\"", b"\"x\"", b"\"[1,2]", b"n\"}", b"\"\\\\\"", b"u0022\"", b"\"{\"a\":1}"]);
            b.extend_from_slice(tail);
            for _ in 0..r.below(40) {
                b.push(*r.pick(INTERESTING));
            }
            ("escrun", b)
        }
        9 => {
            // value runs / value-char boundaries straddling chunks
            let at = near(r);
            let mut b: Vec<u8> = vec![b'['];
            while b.len() < at.saturating_sub(r.below(4) as usize) {
                b.push(*r.pick(b"0123456789azAZ+-.eE"));
            }
            for _ in 0..r.range(1, 30) {
                b.push(*r.pick(b"09az,: ]}[{\"/@`{|+-."));
            }
            ("valrun", b)
        }
        10 => {
            // tiny
            let n = r.below(5) as usize;
            ("tiny", (0..n).map(|_| *r.pick(INTERESTING)).collect())
        }
        _ => {
            // exact chunk-multiple lengths of JSON-ish text
            let mut b = gen_doc(r, maxlen).bytes;
            let n = near(r);
            while b.len() < n {
                let extra = gen_doc(r, 64).bytes;
                b.push(b',');
                b.extend_from_slice(&extra);
            }
            b.truncate(n);
            ("cut", b)
        }
    }
}

fn out_event(enc: &str, eng: &str, o: &Obs) -> Value {
    json!({"e":"out","enc":enc,"eng":eng,"st":o.st,
           "ib":quarters_json(&o.ib),"ibw":o.ib.len(),
           "bp":quarters_json(&o.bp),"bpw":o.bp.len(),"bpl":-1})
}

fn record(args: &Args) {
    let mut r = Rng::new(args.seed());
    let inputs = args.u64("inputs", 200);
    let maxlen = args.u64("maxlen", 4096) as usize;
    let mut tr = Trace::create(&args.pos[1]);
    let engs = engines();
    let index_mode = args.str("mode", "engines") == "index";
    let mut nbytes = 0usize;
    for i in 0..inputs {
        let (fam, mut bytes) = if i == 0 { ("tiny", vec![]) } else { gen_input(&mut r, maxlen) };
        bytes.truncate(maxlen);
        nbytes += bytes.len();
        tr.emit(json!({"e":"in","fam":fam,"bytes":bytes_json(&bytes),"n":bytes.len()}));
        for (enc, eng, f) in &engs {
            if index_mode {
                break;
            }
            let b2 = bytes.clone();
            match guarded(move || f(&b2)) {
                Ok(o) => tr.emit(out_event(enc, eng, &o)),
                Err(_) => tr.emit(json!({"e":"out","enc":enc,"eng":eng,"st":-2,"ib":[],"ibw":-2,"bp":[],"bpw":-2,"bpl":-1})),
            }
        }
        if !index_mode {
            continue;
        }
        // the indexes the library builds (the "consequently" clause): IB words and BP words
        let b2 = bytes.clone();
        if let Ok((ib, bp, bpl)) = guarded(move || {
            let ix = succinctly::json::JsonIndex::build(&b2);
            (ix.ib().to_vec(), ix.bp().words().to_vec(), ix.bp().len())
        }) {
            tr.emit(json!({"e":"out","enc":"std","eng":"index","st":-1,
                "ib":quarters_json(&ib),"ibw":ib.len(),
                "bp":quarters_json(&bp),"bpw":bp.len(),"bpl":bpl}));
        } else {
            tr.emit(json!({"e":"out","enc":"std","eng":"index","st":-2,"ib":[],"ibw":-2,"bp":[],"bpw":-2,"bpl":-2}));
        }
        let b2 = bytes.clone();
        if let Ok((ib, bp, bpl)) = guarded(move || {
            let ix = succinctly::json::SimpleJsonIndex::build(&b2);
            (ix.ib().to_vec(), ix.bp().words().to_vec(), ix.bp().len())
        }) {
            tr.emit(json!({"e":"out","enc":"simple","eng":"index","st":-1,
                "ib":quarters_json(&ib),"ibw":ib.len(),
                "bp":quarters_json(&bp),"bpw":bp.len(),"bpl":bpl}));
        } else {
            tr.emit(json!({"e":"out","enc":"simple","eng":"index","st":-2,"ib":[],"ibw":-2,"bp":[],"bpw":-2,"bpl":-2}));
        }
    }
    let n = tr.finish();
    println!("{{\"events\":{n},\"inputs\":{inputs},\"bytes\":{nbytes},\"engines\":{},\"avx2\":{}}}", if index_mode { 2 } else { engs.len() }, have_avx2());
}

// ---------------------------------------------------------------------------------------
// replay
// ---------------------------------------------------------------------------------------

struct Pred {
    s: i64,
    ib: Vec<u64>,
    bp: Vec<u64>,
    bpn: u64,
}

fn pred_of(v: &Value) -> Pred {
    Pred {
        s: v["s"].as_i64().unwrap(),
        ib: u64s_of_json(&v["ib"]),
        bp: u64s_of_json(&v["bp"]),
        bpn: v["bpn"].as_u64().unwrap(),
    }
}

const LEAD: [u8; 7] = [32, 10, 0, 255, 47, 64, 96];

fn replay(args: &Args) {
    let cases = read_ndjson(&args.pos[1]);
    let mut out = Trace::create(&args.pos[2]);
    let offsets = args.u64("offsets", 70) as usize;
    let engs = engines();
    let mut evals = 0u64;
    let mut mism = 0u64;
    for (ci, c) in cases.iter().enumerate() {
        let core = bytes_of_json(&c["bytes"]);
        let ps = pred_of(&c["std"]);
        let pm = pred_of(&c["simple"]);
        for off in 0..=offsets {
            let lead = LEAD[(off + ci) % LEAD.len()];
            for trail in 0..2usize {
                // trailing padding: 0 bytes, or 1..=19 bytes neutral in the predicted state
                let tlen = if trail == 0 { 0 } else { 1 + (off * 7 + ci) % 19 };
                for (enc, eng, f) in &engs {
                    let p = if *enc == "std" { &ps } else { &pm };
                    let tb: Option<u8> = match (*enc, p.s) {
                        (_, 0) => Some(b' '),
                        (_, 1) => Some(if (off + ci) % 2 == 0 { b'x' } else { b'[' }),
                        ("std", 3) => Some(b'a'),
                        _ => None,
                    };
                    if trail == 1 && tb.is_none() {
                        continue;
                    }
                    let mut input = vec![lead; off];
                    input.extend_from_slice(&core);
                    if trail == 1 {
                        input.extend(std::iter::repeat(tb.unwrap()).take(tlen));
                    }
                    let n = input.len() as u64;
                    let want = Obs {
                        st: p.s,
                        ib: words_of_ones(&p.ib.iter().map(|x| x + off as u64).collect::<Vec<_>>(), n),
                        bp: words_of_ones(&p.bp, p.bpn),
                    };
                    let i2 = input.clone();
                    let got = guarded(move || f(&i2));
                    evals += 1;
                    let ok = matches!(&got, Ok(g) if *g == want);
                    if !ok {
                        mism += 1;
                        if mism <= 50 {
                            let g = got.ok();
                            out.emit(json!({"case":ci,"enc":enc,"eng":eng,"off":off,"trail":if trail==1 {tlen} else {0},
                                "input":bytes_json(&input),"cls":c["cls"].clone(),
                                "want":{"st":want.st,"ib":u64s_json(&ones_of_words(&want.ib)),"ibw":want.ib.len(),
                                        "bp":u64s_json(&ones_of_words(&want.bp)),"bpw":want.bp.len()},
                                "got": match g { Some(g) => json!({"st":g.st,"ib":u64s_json(&ones_of_words(&g.ib)),"ibw":g.ib.len(),
                                        "bp":u64s_json(&ones_of_words(&g.bp)),"bpw":g.bp.len()}), None => json!("PANIC") }}));
                        }
                    }
                }
            }
        }
    }
    out.finish();
    println!("{{\"cases\":{},\"evals\":{evals},\"mismatches\":{mism},\"engines\":{},\"avx2\":{}}}", cases.len(), engs.len(), have_avx2());
}

fn main() {
    let args = Args::parse();
    silence_panics();
    match args.pos.first().map(|s| s.as_str()) {
        Some("tables") if args.pos.len() == 2 => tables(&args.pos[1]),
        Some("record") if args.pos.len() == 2 => record(&args),
        Some("replay") if args.pos.len() == 3 => replay(&args),
        _ => die("usage: c05 tables <out> | record <out> seed=N inputs=N maxlen=N | replay <in> <out> offsets=N"),
    }
}
