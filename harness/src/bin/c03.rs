//! C03 — Elias-Fano: record traces of the real `EliasFano` / `EliasFanoCursor`.
//!
//! usage: c03 record <out.ndjson> seed=N seqs=N ops=N
//!
//! u32 values are logged as [hi16, lo16] pairs (TLC integers are 32-bit signed).
//! Events (validated by spec/Trace_EliasFano.tla):
//!   build: vals, n, universe [hi,lo], high (run-length of high_bits words, hook), lw
//!   get:   a, r            pred: v, ri, r          iter: items
//!   c:     op (cursor|from|adv1|advby|seek), a, r (returned), cur (current()), idx (index()),
//!          ex (is_exhausted), st [idx, high_pos, word_idx] and rb (set bits of remaining_bits)
//!          from the verif hook
use succinctly::bits::EliasFano;
use verif_harness::*;

fn pair(v: u64) -> Value {
    json!([(v >> 16) as i64, (v & 0xFFFF) as i64])
}
fn opt_pair(v: Option<u32>) -> Value {
    match v {
        Some(x) => pair(x as u64),
        None => json!([-1, -1]),
    }
}

fn gen_seq(r: &mut Rng, maxlen: usize) -> Vec<u32> {
    const LENS: [usize; 14] = [0, 1, 2, 3, 7, 40, 255, 256, 257, 511, 512, 513, 1000, 4000];
    let mut n = *r.pick(&LENS);
    if n > maxlen {
        n = r.below(maxlen as u64 + 1) as usize;
    }
    let fam = r.below(7);
    let mut v: Vec<u64> = Vec::with_capacity(n);
    let mut cur: u64 = match r.below(4) {
        0 => 0,
        1 => r.below(100),
        2 => r.below(1 << 20),
        _ => r.below(1 << 31),
    };
    for i in 0..n {
        let step = match fam {
            0 => r.below(4),                                   // dense with duplicates
            1 => r.below(1000),                                // medium gaps
            2 => if r.chance(1, 20) { r.below(1 << 24) } else { 0 }, // long duplicate runs + jumps
            3 => 1,                                            // consecutive
            4 => if r.chance(1, 50) { r.below(1 << 30) } else { r.below(3) }, // huge gaps
            5 => 0,                                            // all equal
            _ => {
                let sh = r.below(20) + 1;
                r.below(1 << sh) // mixed scales
            }
        };
        if i > 0 || fam == 5 {
            cur = (cur + step).min(u32::MAX as u64);
        }
        v.push(cur);
    }
    if n > 0 && r.chance(1, 4) {
        // force the last element(s) to u32::MAX
        let k = r.range(1, 3.min(n as u64)) as usize;
        for x in v.iter_mut().rev().take(k) {
            *x = u32::MAX as u64;
        }
    }
    v.into_iter().map(|x| x as u32).collect()
}

fn main() {
    let args = Args::parse();
    if args.pos.len() < 2 || args.pos[0] != "record" {
        die("usage: c03 record <out> seed=N seqs=N ops=N");
    }
    silence_panics();
    let mut r = Rng::new(args.seed());
    let seqs = args.u64("seqs", 100);
    let nops = args.u64("ops", 200);
    let maxlen = args.u64("maxlen", 4000) as usize;
    let mut tr = Trace::create(&args.pos[1]);

    for _ in 0..seqs {
        let vals = gen_seq(&mut r, maxlen);
        let ef = match guarded(|| EliasFano::build(&vals)) {
            Ok(e) => e,
            Err(_) => {
                tr.emit(json!({"e":"build","vals":vals.iter().map(|&v| pair(v as u64)).collect::<Vec<_>>(),
                               "n":-2,"universe":[-2,-2],"high":[],"lw":-2}));
                continue;
            }
        };
        let n = vals.len();
        #[cfg(feature = "hooks")]
        let (lw, high) = {
            let (lw, hb, _s) = ef.verif_parts();
            (lw as i64, rle_json(&rle_of_words(hb)))
        };
        #[cfg(not(feature = "hooks"))]
        let (lw, high) = (-1i64, json!([]));
        tr.emit(json!({"e":"build","vals":vals.iter().map(|&v| pair(v as u64)).collect::<Vec<_>>(),
                       "n":ef.len(),"empty":i32::from(ef.is_empty()),
                       "universe":pair(ef.universe()),"high":high,"lw":lw}));

        // random access
        let mut idxs: Vec<u64> = vec![0, 1, n as u64, n as u64 + 1, u64::MAX, 255, 256, 257, 511, 512, 513];
        if n > 0 {
            idxs.push(n as u64 - 1);
        }
        for _ in 0..20 {
            idxs.push(r.below(n as u64 + 2));
        }
        for &i in &idxs {
            let g = guarded(|| ef.get(i as usize));
            tr.emit(json!({"e":"get","a":clamp_i(i),"r": g.map(opt_pair).unwrap_or(json!([-2,-2]))}));
        }
        // predecessor
        let mut qs: Vec<u64> = vec![0, 1, u32::MAX as u64, u32::MAX as u64 - 1];
        for _ in 0..12 {
            if n > 0 {
                let x = vals[r.below(n as u64) as usize] as u64;
                qs.push(x);
                qs.push(x.saturating_sub(1));
                qs.push((x + 1).min(u32::MAX as u64));
            }
            qs.push(r.below(1 << 32));
        }
        for &q in &qs {
            let p = guarded(|| ef.predecessor(q as u32));
            match p {
                Ok(Some((i, v))) => tr.emit(json!({"e":"pred","v":pair(q),"ri":i,"r":pair(v as u64)})),
                Ok(None) => tr.emit(json!({"e":"pred","v":pair(q),"ri":-1,"r":[-1,-1]})),
                Err(_) => tr.emit(json!({"e":"pred","v":pair(q),"ri":-2,"r":[-2,-2]})),
            }
        }
        // iteration
        if n <= 600 || r.chance(1, 4) {
            let items = guarded(|| (&ef).into_iter().collect::<Vec<u32>>());
            match items {
                Ok(it) => tr.emit(json!({"e":"iter","cnt":it.len(),
                                          "items":it.iter().map(|&v| pair(v as u64)).collect::<Vec<_>>()})),
                Err(_) => tr.emit(json!({"e":"iter","cnt":-2,"items":[]})),
            }
        }

        // cursor history
        let mut cur = ef.cursor();
        let mut first = true;
        let mut i = 0;
        while i < nops {
            i += 1;
            // choose op
            let (op, a): (&str, u64) = if first {
                first = false;
                ("cursor", 0)
            } else {
                match r.below(20) {
                    0 => ("cursor", 0),
                    1 | 2 => ("from", match r.below(4) {
                        0 => r.below(n as u64 + 3),
                        1 => n as u64,
                        2 => (n as u64).saturating_sub(r.below(3)),
                        _ => if r.chance(1, 5) { u64::MAX } else { r.below(n as u64 + 1) },
                    }),
                    3..=8 => ("adv1", 0),
                    9..=14 => ("advby", match r.below(12) {
                        0 => 0,
                        1 => 1,
                        2 => 2,
                        3 => 63,
                        4 => 64,
                        5 => 65,
                        6 => 300,
                        7 => r.below(70),
                        8 => r.below(8),
                        9 => u64::MAX,
                        10 => (n as u64).saturating_sub(cur.index() as u64), // lands exactly on len
                        _ => r.below(n as u64 + 2),
                    }),
                    _ => ("seek", match r.below(6) {
                        0 => r.below(n as u64 + 3),
                        1 => (cur.index() as u64).saturating_sub(r.below(5)), // backward
                        2 => n as u64,
                        3 => u64::MAX,
                        4 => (cur.index() as u64 + r.below(80)).min(n as u64 + 1),
                        _ => r.below(n as u64 + 1),
                    }),
                }
            };
            let au = a as usize;
            let ret = match op {
                "cursor" => {
                    cur = ef.cursor();
                    Ok(cur.current())
                }
                "from" => match guarded(|| ef.cursor_from(au)) {
                    Ok(c) => {
                        cur = c;
                        Ok(cur.current())
                    }
                    Err(e) => Err(e),
                },
                "adv1" => guarded(|| cur.advance_one()),
                "advby" => guarded(|| cur.advance_by(au)),
                _ => guarded(|| cur.seek(au)),
            };
            match ret {
                Ok(rv) => {
                    #[cfg(feature = "hooks")]
                    let (st, rb) = {
                        let (ci, hp, wi, rb) = cur.verif_state();
                        (json!([ci, hp, wi]), json!(word_bits(rb)))
                    };
                    #[cfg(not(feature = "hooks"))]
                    let (st, rb) = (json!([]), json!([]));
                    tr.emit(json!({"e":"c","op":op,"a":clamp_i(a),"r":opt_pair(rv),"cur":opt_pair(cur.current()),
                                   "idx":cur.index(),"ex":i32::from(cur.is_exhausted()),"st":st,"rb":rb}));
                }
                Err(_) => {
                    tr.emit(json!({"e":"c","op":op,"a":clamp_i(a),"r":[-2,-2],"cur":[-2,-2],
                                   "idx":-2,"ex":-2,"st":[],"rb":[]}));
                    // re-synchronise: a fresh cursor (the next event is a "cursor" op)
                    first = true;
                }
            }
        }
    }
    let n = tr.finish();
    println!("{{\"events\":{n}}}");
}
