//! C09 — JSON string escaping: record traces of the four `write_json_body_*` writers of
//! `succinctly::jq::escape` and of the escape scanner `succinctly::yaml::simd::find_json_escape`.
//!
//! usage: c09 record <out.ndjson> seed=N strings=N scans=N offsets=N perofs=N
//!
//! Conventions are always in the order jq, jqAscii, yq, yqAscii.  Strings are lists of code
//! points; written bodies are logged RAW as lists of code points (the trace specification does
//! the JSON reading itself).  Events (validated by spec/Trace_Escape.tla):
//!   iv:    c, lo, hi, kind (lit|short|u4|pair|other), olo / ohi (raw body written for lo / hi),
//!          r (number of code points lo..hi).  A maximal interval of consecutive scalar values
//!          whose single-character bodies have the same lexical shape AND whose numeric
//!          parameter advances by exactly one per code point (lit: the character itself;
//!          u4: the hex value; pair: first unit constant, second unit +1; short: one code point
//!          per interval).  The harness checks the interior against this shape; TLC decodes
//!          both edges from the raw characters and evaluates MustEscape on every code point.
//!   ivend: c, r (code points covered for convention c)
//!   s:     s (code points), o (four raw bodies), r (length of the first body)
//!   fe:    rn (bytes as runs [[byte, count], ...]), res (find_json_escape(bytes, start) for
//!          start = 0..=len+2), r (len)
use std::fmt::Write as _;
use succinctly::jq::escape::{
    write_json_body_jq, write_json_body_jq_ascii, write_json_body_yq, write_json_body_yq_ascii,
};
use succinctly::yaml::simd::find_json_escape;
use verif_harness::*;

type Writer = fn(&mut String, &str) -> std::fmt::Result;
const CONV: [&str; 4] = ["jq", "jqAscii", "yq", "yqAscii"];

fn writers() -> [Writer; 4] {
    [
        write_json_body_jq::<String>,
        write_json_body_jq_ascii::<String>,
        write_json_body_yq::<String>,
        write_json_body_yq_ascii::<String>,
    ]
}

/// Raw body as code points; a panic or fmt error is the one-element body [-2].
fn body(w: Writer, s: &str) -> Vec<i64> {
    match guarded(|| {
        let mut out = String::new();
        w(&mut out, s).map(|_| out)
    }) {
        Ok(Ok(o)) => o.chars().map(|c| c as i64).collect(),
        _ => vec![-2],
    }
}

/// Lexical shape of the body written for ONE code point.
#[derive(Clone, PartialEq, Debug)]
enum Shape {
    Lit(i64),       // the literal character
    Short(i64),     // backslash + letter
    U4(i64),        // \uXXXX value
    Pair(i64, i64), // two \uXXXX
    Other,
}

fn hex4(cs: &[i64]) -> Option<i64> {
    if cs.len() != 4 {
        return None;
    }
    let mut v = 0i64;
    for &c in cs {
        let d = char::from_u32(c as u32)?.to_digit(16)? as i64;
        v = v * 16 + d;
    }
    Some(v)
}

fn shape(b: &[i64]) -> Shape {
    const BS: i64 = 92;
    const U: i64 = 117;
    match b.len() {
        1 if b[0] != BS && b[0] >= 0 => Shape::Lit(b[0]),
        2 if b[0] == BS && b[1] != U => Shape::Short(b[1]),
        6 if b[0] == BS && b[1] == U => hex4(&b[2..6]).map(Shape::U4).unwrap_or(Shape::Other),
        12 if b[0] == BS && b[1] == U && b[6] == BS && b[7] == U => match (hex4(&b[2..6]), hex4(&b[8..12])) {
            (Some(h), Some(l)) => Shape::Pair(h, l),
            _ => Shape::Other,
        },
        _ => Shape::Other,
    }
}

/// Does `next` (shape at cp+1) continue the interval whose previous shape (at cp) is `prev`?
fn continues(prev: &Shape, next: &Shape) -> bool {
    match (prev, next) {
        (Shape::Lit(a), Shape::Lit(b)) => *b == *a + 1,
        (Shape::U4(a), Shape::U4(b)) => *b == *a + 1,
        (Shape::Pair(h1, l1), Shape::Pair(h2, l2)) => h1 == h2 && *l2 == *l1 + 1,
        _ => false,
    }
}

fn kind(s: &Shape) -> &'static str {
    match s {
        Shape::Lit(_) => "lit",
        Shape::Short(_) => "short",
        Shape::U4(_) => "u4",
        Shape::Pair(..) => "pair",
        Shape::Other => "other",
    }
}

fn cps_json(s: &str) -> Value {
    json!(s.chars().map(|c| c as u32).collect::<Vec<u32>>())
}

const FILL: [&str; 5] = ["abcdefghijklmnopqrstuvwxyz", "é", "€", "😀", " ~"];

/// `n` code points of filler of style `st` (0: ASCII, 1..3: ASCII with 2/3/4-byte characters
/// mixed in, so span boundaries fall inside and between multi-byte sequences)
fn filler(r: &mut Rng, st: u64, n: usize) -> String {
    let az: Vec<char> = FILL[0].chars().collect();
    let mut s = String::new();
    for i in 0..n {
        let c = match st {
            0 => az[i % 26],
            1 => if i % 3 == 1 { 'é' } else { az[i % 26] },
            2 => if i % 4 == 2 { '€' } else if i % 5 == 0 { '\u{7f}' } else { az[i % 26] },
            3 => if i % 3 == 0 { '😀' } else if i % 7 == 1 { '\u{80}' } else { az[i % 26] },
            _ => *r.pick(&['a', ' ', '~', 'é', '€', '😀', '\u{7f}', '\u{80}', '\u{9f}', '\u{2028}', '/', '!', '#', '[', ']']),
        };
        s.push(c);
    }
    s
}

const SPECIAL: [char; 16] = [
    '"', '\\', '\n', '\r', '\t', '\u{0}', '\u{1}', '\u{8}', '\u{c}', '\u{1f}', '\u{7f}', '\u{80}', 'é', '\u{2028}',
    '😀', '\u{10ffff}',
];

fn main() {
    let args = Args::parse();
    if args.pos.len() < 2 || args.pos[0] != "record" {
        die("usage: c09 record <out> seed=N strings=N scans=N perofs=N pre=N");
    }
    silence_panics();
    let mut r = Rng::new(args.seed());
    let nstrings = args.u64("strings", 300) as usize;
    let nscans = args.u64("scans", 200) as usize;
    let perofs = args.u64("perofs", 5) as usize; // special characters tried per offset
    let npre = args.u64("pre", 3) as usize; // (pre, post) layouts per byte value in the scanner sweep
    let mut tr = Trace::create(&args.pos[1]);
    let ws = writers();

    // ---------- (i) every scalar value, by intervals ----------------------------------------
    let mut scalars = 0u64;
    let mut intervals = 0usize;
    for (ci, w) in ws.iter().enumerate() {
        let mut covered = 0u64;
        // current interval: lo, body at lo, previous cp, shape and body at previous cp
        let mut cur: Option<(u32, Vec<i64>, u32, Shape, Vec<i64>)> = None;
        let mut flush = |tr: &mut Trace, cur: &mut Option<(u32, Vec<i64>, u32, Shape, Vec<i64>)>| {
            if let Some((lo, olo, hi, sh, ohi)) = cur.take() {
                tr.emit(json!({"e": "iv", "c": CONV[ci], "lo": lo, "hi": hi, "kind": kind(&sh),
                               "olo": olo, "ohi": ohi, "r": (hi - lo + 1)}));
                intervals += 1;
            }
        };
        let mut buf = [0u8; 4];
        for cp in 0u32..=0x10FFFF {
            let Some(ch) = char::from_u32(cp) else {
                flush(&mut tr, &mut cur); // surrogate gap
                continue;
            };
            let b = body(*w, ch.encode_utf8(&mut buf));
            let sh = shape(&b);
            covered += 1;
            let cont = match &cur {
                Some((_, _, hi, psh, _)) => *hi + 1 == cp && continues(psh, &sh),
                None => false,
            };
            if cont {
                let c = cur.as_mut().unwrap();
                c.2 = cp;
                c.3 = sh;
                c.4 = b;
            } else {
                flush(&mut tr, &mut cur);
                cur = Some((cp, b.clone(), cp, sh, b));
            }
        }
        flush(&mut tr, &mut cur);
        tr.emit(json!({"e": "ivend", "c": CONV[ci], "r": covered}));
        scalars += covered;
    }

    // ---------- (ii) strings: an escapable character at every offset -------------------------
    let mut strings: Vec<String> = vec![String::new()];
    let tails = [0usize, 1, 15, 16, 17, 31, 32, 33, 47, 64, 129];
    let mut t = 0usize;
    for ofs in 0..=70usize {
        for j in 0..perofs {
            let sp = SPECIAL[(ofs * 5 + j * 3) % SPECIAL.len()];
            let st = ((ofs + j) % 4) as u64;
            let tail = tails[t % tails.len()].min(199 - ofs);
            t += 1;
            let mut s = filler(&mut r, st, ofs);
            s.push(sp);
            s.push_str(&filler(&mut r, (st + 1) % 4, tail));
            strings.push(s);
        }
        // two specials separated by a span of `ofs` characters, after a short prefix
        let mut s = filler(&mut r, 0, ofs % 5);
        s.push(SPECIAL[ofs % 10]);
        s.push_str(&filler(&mut r, (ofs % 4) as u64, ofs));
        s.push(SPECIAL[(ofs + 3) % 10]);
        s.push_str(&filler(&mut r, 0, (ofs * 7) % 40));
        strings.push(s);
    }
    // every special alone, doubled, and at the end of a 16/32-byte chunk
    for &sp in &SPECIAL {
        strings.push(sp.to_string());
        strings.push(format!("{sp}{sp}"));
        for n in [15usize, 16, 31, 32, 63, 64] {
            let mut s = filler(&mut r, 0, n);
            s.push(sp);
            strings.push(s);
        }
    }
    // text that looks like escapes already, and all-escape strings
    for s in ["\\u0041", "\\\\u00e9", "\\n", "\"\\\"", "\\ud83d\\ude00", "u0000", "\\", "\\\\", "a\\", "\u{8}\u{c}\u{7f}"] {
        strings.push(s.to_string());
    }
    for n in [1usize, 2, 15, 16, 17, 33, 70, 200] {
        strings.push((0..n).map(|i| SPECIAL[i % 11]).collect());
    }
    // random strings of length 0..200 with varying density of escapable characters
    for i in 0..nstrings {
        let n = r.below(201) as usize;
        let dens = [0u64, 1, 3, 10, 40][i % 5];
        let st = r.below(5);
        let base: Vec<char> = filler(&mut r, st, n).chars().collect();
        let s: String = base
            .into_iter()
            .map(|c| if r.below(100) < dens { *r.pick(&SPECIAL) } else { c })
            .collect();
        strings.push(s);
    }
    let nstr = strings.len();
    let mut chars_in = 0usize;
    for s in &strings {
        let o: Vec<Vec<i64>> = ws.iter().map(|w| body(*w, s)).collect();
        chars_in += s.chars().count();
        tr.emit(json!({"e": "s", "s": cps_json(s), "r": o[0].len(), "o": o}));
    }

    // ---------- find_json_escape: every start on class-run inputs ---------------------------
    let mut scan_results = 0usize;
    let mut emit_scan = |tr: &mut Trace, runs: &[(u8, usize)]| {
        let mut bytes = vec![];
        for &(b, n) in runs {
            bytes.extend(std::iter::repeat(b).take(n));
        }
        let res: Vec<i64> = (0..=bytes.len() + 2)
            .map(|st| guarded(|| find_json_escape(&bytes, st) as i64).unwrap_or(-2))
            .collect();
        scan_results += res.len();
        let rn: Vec<Value> = runs.iter().filter(|x| x.1 > 0).map(|&(b, n)| json!([b, n])).collect();
        tr.emit(json!({"e": "fe", "rn": rn, "res": res, "r": bytes.len()}));
    };
    // every byte value inside filler at layouts that end in the AVX2 loop / SSE2 tail / scalar rest
    let layouts = [(0usize, 0usize), (33, 20), (16, 3), (47, 17), (64, 30), (31, 1), (3, 5)];
    let fills = [0x61u8, 0x80, 0xC3, 0x7F, 0x20, 0xFF, 0x21, 0x5B, 0x5D, 0x23];
    for b in 0..=255u8 {
        for (li, &(pre, post)) in layouts.iter().take(npre).enumerate() {
            let f = fills[(b as usize + li) % fills.len()];
            emit_scan(&mut tr, &[(f, pre), (b, 1), (f, post)]);
        }
    }
    let classes = [0x22u8, 0x5C, 0x00, 0x09, 0x0A, 0x1F, 0x20, 0x21, 0x23, 0x5B, 0x5D, 0x7F, 0x80, 0x9F, 0xA2, 0xDC, 0xE0, 0xFF, 0x61];
    for _ in 0..nscans {
        let nr = r.range(0, 7) as usize;
        let mut runs = vec![];
        for _ in 0..nr {
            let esc = r.chance(1, 3);
            let b = if esc { classes[r.below(6) as usize] } else { classes[6 + r.below(13) as usize] };
            let n = if esc { r.range(1, 3) } else { *r.pick(&[1u64, 2, 7, 15, 16, 17, 31, 32, 33, 40]) } as usize;
            runs.push((b, n));
        }
        emit_scan(&mut tr, &runs);
    }

    let n = tr.finish();
    let mut s = String::new();
    let _ = write!(s, "{}", json!({"events": n, "scalars_covered": scalars, "intervals": intervals, "strings": nstr,
        "string_chars": chars_in, "scanner_results": scan_results}));
    println!("{s}");
}
