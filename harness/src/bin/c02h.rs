//! C02 — word-level kernels, every path: needs /repo with hooks/H1-kernel-reexports.patch
//! applied (`succinctly::verif_hooks`) and the harness feature `hooks`.  Without the feature
//! this binary is a stub (so a plain `cargo build` of all binaries never breaks); with the
//! feature but without the patch it does not compile, and checks/c02.py falls back to `c02`.
#[cfg(feature = "hooks")]
#[path = "c02_common/mod.rs"]
mod common;

#[cfg(feature = "hooks")]
fn main() {
    use succinctly::verif_hooks as vh;
    fn pdep(w: u64, k: u32) -> u32 {
        // SAFETY: only installed below when BMI2 is detected
        unsafe { vh::select_in_word_pdep(w, k) }
    }
    fn avx2(b: &[u64]) -> usize {
        // SAFETY: only installed below when AVX2 is detected; callers pass exactly 8 words
        unsafe { vh::block_popcount_avx2(b) }
    }
    common::run(Some(common::Hooks {
        ctz: vh::select_in_word_ctz,
        bw: vh::select_in_word_broadword,
        pdep: if std::arch::is_x86_feature_detected!("bmi2") { Some(pdep) } else { None },
        byte: vh::select_in_byte,
        table: &vh::SELECT_IN_BYTE_TABLE,
        avx2: if std::arch::is_x86_feature_detected!("avx2") { Some(avx2) } else { None },
        fast: vh::find_close_in_word_fast,
        fast_bmi2: vh::has_fast_bmi2(),
    }))
}

#[cfg(not(feature = "hooks"))]
fn main() {
    eprintln!("c02h: built without the `hooks` feature");
    std::process::exit(3)
}
