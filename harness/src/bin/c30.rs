//! C30 — jq programs never crash the process.
//!
//!   c30 replay <programs.ndjson> <trace.ndjson> [cap=N] [timeout_ms=N] [anomalies=path]
//!        programs: {"fam":"jqx","prog":TEXT,"input":JSON TEXT,...}   (JqGrammarX.tla)
//!               or {"fam":"jq","p":[tokens]}                         (TokenSoup.tla: run glued
//!                  and space-separated, on two small inputs)
//!        Each (program, input) goes to a supervised WORKER process: jq::parse, then
//!        jq::eval (full evaluator) and jq::eval_generic (the CLI's evaluator), each under
//!        catch_unwind, all outputs materialised and printed with to_json.  A worker that
//!        dies (allocation failure -> SIGABRT, stack overflow -> SIGSEGV/SIGABRT) is observed
//!        by the supervisor for EVERY program; a wall-clock overrun is inconclusive.
//!   c30 cli <programs.ndjson> <trace.ndjson> cli=<succinctly> [max=N]
//!        a seeded sample through `succinctly jq -c PROG` (stdin = input): exit status /
//!        signal.
//!   c30 worker | c30 one <prog> <input>

#[path = "crash_common/mod.rs"]
mod common;

use common::*;
use std::time::Duration;
use succinctly::jq::eval_generic;
use succinctly::jq::{self, Control, Expr, JqSemantics, QueryResult};
use succinctly::json::JsonIndex;
use verif_harness::*;

const APIS: [&str; 3] = ["jq.parse", "jq.eval", "jq.eval_generic"];

const SOUP_INPUTS: [&str; 2] = ["null", "[1,[2,\"a\"],{\"a\":1,\"b\":null},\"xyz\"]"];

fn control_msg(c: &Control) -> String {
    match c {
        Control::Error(e) => format!("error: {e}"),
        Control::Break(l) => format!("break {l}"),
        Control::Halt(code) => format!("halt {code}"),
    }
}

fn eval_full(expr: &Expr, input: &[u8]) -> Result<usize, String> {
    let index = JsonIndex::build(input);
    let cursor = index.root(input);
    let res: QueryResult<Vec<u64>> = jq::eval::<Vec<u64>, JqSemantics>(expr, cursor);
    let end: Option<String> = match &res {
        QueryResult::Error(e) => Some(format!("error: {e}")),
        QueryResult::Break(l) => Some(format!("break {l}")),
        QueryResult::Halt(c) => Some(format!("halt {c}")),
        QueryResult::Partial(_, c) => Some(control_msg(c)),
        _ => None,
    };
    let mut n = 0;
    for v in res.collect_owned() {
        n += v.to_json().len();
    }
    match end {
        Some(m) => Err(m),
        None => Ok(n),
    }
}

fn eval_gen(expr: &Expr, input: &[u8]) -> Result<usize, String> {
    use eval_generic::GenericResult;
    let index = JsonIndex::build(input);
    let cursor = index.root(input);
    let res = eval_generic::eval_with_cursor(expr, cursor);
    let end: Option<String> = match &res {
        GenericResult::Error(e) => Some(format!("error: {e}")),
        GenericResult::Break(l) => Some(format!("break {l}")),
        GenericResult::Halt(c) => Some(format!("halt {c}")),
        GenericResult::Partial(_, c) => Some(control_msg(c)),
        _ => None,
    };
    let mut n = 0;
    let mut lazy_err = None;
    match res {
        GenericResult::LazySeq(seq) => match seq.materialize_atomic() {
            Ok(v) => n += v.to_json().len(),
            Err(c) => lazy_err = Some(control_msg(&c)),
        },
        other => {
            for v in other.collect_owned() {
                n += v.to_json().len();
            }
        }
    }
    match end.or(lazy_err) {
        Some(m) => Err(m),
        None => Ok(n),
    }
}

/// Programs that may not terminate are not evaluated (the statement excludes them): the only
/// way to loop forever with the soup alphabet is a recursive `def`.
fn may_not_terminate(prog: &str) -> bool {
    prog.contains("def")
}

fn run_prog(prog: &str, input: &[u8], only: &str, soup: bool) -> Vec<Value> {
    let mut out = vec![];
    let mut parsed: Option<Expr> = None;
    let mut pos = None;
    let o = call(|| match jq::parse(prog) {
        Ok(e) => {
            let n = format!("{e:?}").len();
            parsed = Some(e);
            Ok(n)
        }
        Err(e) => {
            pos = Some(e.position);
            Err(format!("{e}"))
        }
    });
    if only.is_empty() || only == "jq.parse" {
        let mut v = out_json("jq.parse", o);
        if let Some(p) = pos {
            v.as_array_mut().unwrap().push(json!([clamp_i(p as u64), 1, 1, 0]));
        }
        out.push(v);
    }
    let Some(expr) = parsed else { return out };
    if soup && may_not_terminate(prog) {
        return out;
    }
    if only.is_empty() || only == "jq.eval" {
        out.push(out_json("jq.eval", call(|| eval_full(&expr, input))));
    }
    if only.is_empty() || only == "jq.eval_generic" {
        out.push(out_json("jq.eval_generic", call(|| eval_gen(&expr, input))));
    }
    out
}

fn worker() {
    worker_loop(|only, payload| {
        let (sampled, payload) = match payload.strip_prefix('S') {
            Some(p) => (true, p),
            None => (false, payload),
        };
        let (soup, payload) = match payload.strip_prefix('T') {
            Some(p) => (true, p),
            None => (false, payload),
        };
        let (ph, ih) = payload.split_once('.').unwrap_or((payload, ""));
        let prog = String::from_utf8(unhex(ph)).unwrap_or_default();
        let input = unhex(ih);
        let outs = run_prog(&prog, &input, only, soup);
        if sampled || !only.is_empty() {
            Value::Array(outs)
        } else {
            compact_of(&APIS, outs)
        }
    });
}

struct Item {
    src: usize,
    prog: String,
    input: String,
    soup: bool,
}

fn piece_str(p: &str, out: &mut Vec<u8>) {
    let b = p.as_bytes();
    if b.len() >= 4 && b[0] == b'<' && b[b.len() - 1] == b'>' && (b.len() - 2) % 2 == 0 && b[1..b.len() - 1].iter().all(|c| c.is_ascii_hexdigit()) {
        out.extend_from_slice(&unhex(&p[1..p.len() - 1]));
    } else {
        out.extend_from_slice(b);
    }
}

fn items_of(inputs: &[Value]) -> Vec<Item> {
    let mut items = vec![];
    for (i, v) in inputs.iter().enumerate() {
        if let Some(p) = v.get("prog").and_then(|x| x.as_str()) {
            items.push(Item { src: i, prog: p.to_string(), input: v["input"].as_str().unwrap_or("null").to_string(), soup: false });
            continue;
        }
        let ps: Vec<&str> = v["p"].as_array().map(|a| a.iter().map(|x| x.as_str().unwrap_or("")).collect()).unwrap_or_default();
        let mut glued = vec![];
        let mut spaced = vec![];
        for (k, p) in ps.iter().enumerate() {
            piece_str(p, &mut glued);
            if k > 0 {
                spaced.push(b' ');
            }
            piece_str(p, &mut spaced);
        }
        let mut texts = vec![glued.clone()];
        if spaced != glued {
            texts.push(spaced);
        }
        for t in texts {
            // the parser's domain is &str
            if let Ok(s) = String::from_utf8(t) {
                for inp in SOUP_INPUTS {
                    items.push(Item { src: i, prog: s.clone(), input: inp.to_string(), soup: true });
                }
            }
        }
    }
    items
}

fn emit_pair(tr: &mut Trace, id: usize, len: usize, o: &Value) {
    let api = o[0].as_str().unwrap_or("");
    let r = o[1].as_i64().unwrap_or(-9);
    tr.emit(json!({"e": "inv", "api": api, "id": id, "len": clamp_i(len as u64)}));
    let mut ev = json!({"e": "ret", "api": api, "id": id, "r": r, "len": clamp_i(len as u64)});
    if r == 0 {
        ev["w"] = o[2].clone();
    } else if r == 1 {
        ev["m"] = o[2].clone();
    }
    if r < 0 {
        ev["msg"] = json!(norm_msg(o[3].as_str().unwrap_or("")));
        ev["loc"] = o[4].clone();
    }
    if let Some(p) = o.get(5) {
        ev["pos"] = p.clone();
    }
    tr.emit(ev);
}

fn replay(args: &Args) {
    let inputs = read_ndjson(&args.pos[1]);
    let mut tr = Trace::create(&args.pos[2]);
    let cap = args.u64("cap", 100_000) as usize;
    let to = Duration::from_millis(args.u64("timeout_ms", 20_000));
    let threads = args.u64("threads", 4) as usize;
    let batch = args.u64("batch", 32) as usize;
    let exe = std::env::current_exe().unwrap().to_string_lossy().to_string();
    let items = items_of(&inputs);
    let apis: Vec<String> = APIS.iter().map(|s| s.to_string()).collect();
    // jqx programs are always logged in full; soups are sampled
    let nsoup = items.iter().filter(|i| i.soup).count();
    let njqx = items.len() - nsoup;
    let budget = cap.saturating_sub(njqx * 6).max(cap / 4);
    let k = (nsoup * 3).div_ceil(budget.max(1)).max(1);
    let sampled = |id: usize| !items[id].soup || id % k == 0;
    let payloads: Vec<String> = items
        .iter()
        .enumerate()
        .map(|(id, it)| format!("{}{}{}.{}", if sampled(id) { "S" } else { "" }, if it.soup { "T" } else { "" }, hex(it.prog.as_bytes()), hex(it.input.as_bytes())))
        .collect();
    let mut per = std::collections::BTreeMap::<String, [u64; 3]>::new();
    let (mut calls, mut ok, mut err, mut panic, mut abort, mut limit, mut inconclusive) = (0u64, 0u64, 0u64, 0u64, 0u64, 0u64, 0u64);
    let mut anomalies: Vec<(usize, Value)> = vec![];
    let mut kept: Vec<(usize, Vec<Value>)> = vec![];
    let mut evaluated = 0u64;
    let restarts = run_supervised(&exe, &["worker"], args.u64("vlimit_kb", 8 << 20), &payloads, &apis, threads, batch, to, |id, res| {
        let it = &items[id];
        for (api, kind) in &res.inconclusive {
            inconclusive += 1;
            anomalies.push((id, json!({"id": id, "src": it.src, "prog": it.prog, "input": it.input, "kind": kind, "api": api})));
        }
        for (i, ch) in res.compact.chars().enumerate() {
            if ch == '-' || ch == 'P' {
                continue;
            }
            calls += 1;
            let e = per.entry(APIS[i].to_string()).or_insert([0; 3]);
            match ch {
                'v' => {
                    ok += 1;
                    e[0] += 1;
                }
                'e' => {
                    err += 1;
                    e[1] += 1;
                }
                _ => limit += 1,
            }
            if i == 1 {
                evaluated += 1;
            }
        }
        let mut keep = vec![];
        for o in &res.outs {
            let api = o[0].as_str().unwrap_or("").to_string();
            let r = o[1].as_i64().unwrap_or(-9);
            calls += 1;
            if api == "jq.eval" {
                evaluated += 1;
            }
            let e = per.entry(api.clone()).or_insert([0; 3]);
            match r {
                0 => {
                    ok += 1;
                    e[0] += 1;
                }
                1 => {
                    err += 1;
                    e[1] += 1;
                }
                -4 => {
                    limit += 1;
                    continue;
                }
                _ => {
                    if r == -3 {
                        abort += 1;
                    } else {
                        panic += 1;
                    }
                    e[2] += 1;
                    anomalies.push((id, json!({"id": id, "src": it.src, "prog": it.prog, "input": it.input,
                        "kind": if r == -3 { "abort" } else { "panic" }, "api": api, "msg": o[3], "loc": o[4]})));
                }
            }
            if sampled(id) || r < 0 {
                keep.push(o.clone());
            }
        }
        if !keep.is_empty() {
            kept.push((id, keep));
        }
    });
    // at most ANOM_CAP logged calls per (api, panic location): a gross defect must not produce
    // a trace of millions of events (all of them are still counted)
    const ANOM_CAP: usize = 300;
    let mut seen_anom = std::collections::HashMap::<(String, String), usize>::new();
    kept.sort_by_key(|x| x.0);
    for (id, outs) in &kept {
        for o in outs {
            if o[1].as_i64().unwrap_or(0) < 0 {
                let c = seen_anom.entry((o[0].as_str().unwrap_or("").to_string(), o[4].as_str().unwrap_or("").to_string())).or_insert(0);
                *c += 1;
                if *c > ANOM_CAP {
                    continue;
                }
            }
            emit_pair(&mut tr, *id, items[*id].prog.len(), o);
        }
    }
    let n = tr.finish();
    anomalies.sort_by_key(|x| x.0);
    let mut seen_anom = std::collections::HashMap::<(String, String), usize>::new();
    if let Some(p) = args.kv.get("anomalies") {
        let mut t = Trace::create(p);
        for (_, a) in anomalies {
            let c = seen_anom.entry((a["api"].as_str().unwrap_or("").to_string(), a["loc"].as_str().unwrap_or("").to_string())).or_insert(0);
            *c += 1;
            if *c > ANOM_CAP {
                continue;
            }
            t.emit(a);
        }
        t.finish();
    }
    let perj: serde_json::Map<String, Value> = per.iter().map(|(k, v)| (k.clone(), json!(v))).collect();
    println!(
        "{}",
        json!({"programs": items.len(), "grammar_programs": njqx, "soup_programs": nsoup, "calls": calls, "ok": ok, "err": err,
               "panic": panic, "abort": abort, "documented_limit": limit, "inconclusive": inconclusive, "evaluated": evaluated,
               "events": n, "sample_every": k, "worker_restarts": restarts, "per_api": perj})
    );
}

fn cli_stage(args: &Args) {
    install_hook();
    let inputs = read_ndjson(&args.pos[1]);
    let mut tr = Trace::create(&args.pos[2]);
    let cli = args.str("cli", "");
    if cli.is_empty() {
        die("cli=<path> required");
    }
    let to = Duration::from_millis(args.u64("timeout_ms", 10_000));
    let max = args.u64("max", 300) as usize;
    let mut rng = Rng::new(args.seed());
    let mut items = items_of(&inputs);
    // grammar programs first (they carry the extreme operands), then soups that parse
    let mut jqx: Vec<Item> = vec![];
    let mut soup: Vec<Item> = vec![];
    for it in items.drain(..) {
        if it.soup {
            if it.input == SOUP_INPUTS[1] && !may_not_terminate(&it.prog) && !it.prog.contains('\0') && matches!(call(|| jq::parse(&it.prog).map(|_| 0).map_err(|e| format!("{e}"))), Out::Ok(_)) {
                soup.push(it);
            }
        } else {
            jqx.push(it);
        }
    }
    rng.shuffle(&mut jqx);
    rng.shuffle(&mut soup);
    jqx.truncate(max * 3 / 4);
    soup.truncate(max - jqx.len().min(max));
    jqx.extend(soup);
    // programs that crashed in-process are always tried through the CLI as well
    if let Some(p) = args.kv.get("also") {
        if std::path::Path::new(p).exists() {
            let mut seen = std::collections::BTreeSet::new();
            for a in read_ndjson(p) {
                if let (Some(pr), Some(inp)) = (a["prog"].as_str(), a["input"].as_str()) {
                    if matches!(a["kind"].as_str(), Some("panic") | Some("abort")) && seen.len() < 60 && seen.insert(pr.to_string()) {
                        jqx.push(Item { src: 0, prog: pr.to_string(), input: inp.to_string(), soup: false });
                    }
                }
            }
        }
    }
    let mut stats = [0u64; 4];
    let mut anomalies = vec![];
    let results = par_map(&jqx, args.u64("threads", 4) as usize, |_, it| {
        let argv: Vec<String> = vec!["jq".into(), "-c".into(), "--".into(), it.prog.clone()];
        run_cli(&cli, &argv, it.input.as_bytes(), to)
    });
    for (id, (it, (kind, code, tail, outlen))) in jqx.iter().zip(results).enumerate() {
        let api = "cli:jq -c PROG";
        let (r, m): (i64, i64) = match kind.as_str() {
            "timeout" => {
                stats[3] += 1;
                continue;
            }
            "signal" => (-3, code as i64),
            _ => {
                if code == 0 {
                    (0, 0)
                } else if code == 101 {
                    (-2, 101)
                } else if code == 134 || code == 139 {
                    (-3, (code - 128) as i64)
                } else {
                    (1, code.max(1) as i64)
                }
            }
        };
        match r {
            0 => stats[0] += 1,
            1 => stats[1] += 1,
            _ => stats[2] += 1,
        }
        tr.emit(json!({"e": "inv", "api": api, "id": id, "len": clamp_i(it.prog.len() as u64)}));
        let mut ev = json!({"e": "ret", "api": api, "id": id, "r": r, "len": clamp_i(it.prog.len() as u64)});
        if r == 0 {
            ev["w"] = json!(outlen.min(1 << 29));
        } else if r == 1 {
            ev["m"] = json!(m);
        }
        if r < 0 {
            let loc = tail
                .find("panicked at ")
                .map(|i| {
                    let rest = &tail[i + 12..];
                    let end = rest.find(['\n', ' ']).unwrap_or(rest.len());
                    let l = rest[..end].trim_end_matches(':');
                    let parts: Vec<&str> = l.split(':').collect();
                    if parts.len() >= 2 {
                        format!("{}:{}", norm_file(parts[0]), parts[1])
                    } else {
                        l.to_string()
                    }
                })
                .unwrap_or_else(|| if r == -3 { classify_death(code, 0, &tail).to_string() } else { "?".to_string() });
            ev["msg"] = json!(norm_msg(tail.lines().find(|l| !l.trim().is_empty() && !l.starts_with("thread ")).unwrap_or("")));
            ev["loc"] = json!(loc);
            anomalies.push(json!({"id": id, "prog": it.prog, "input": it.input, "kind": if r == -3 { "abort" } else { "panic" },
                "api": api, "msg": tail, "loc": ev["loc"]}));
        }
        tr.emit(ev);
    }
    let n = tr.finish();
    if let Some(p) = args.kv.get("anomalies") {
        let mut t = Trace::create(p);
        for a in anomalies {
            t.emit(a);
        }
        t.finish();
    }
    println!("{}", json!({"programs": jqx.len(), "runs": stats[0] + stats[1] + stats[2] + stats[3], "ok": stats[0], "err": stats[1],
        "crash": stats[2], "inconclusive": stats[3], "events": n}));
}

fn main() {
    let args = Args::parse();
    match args.pos.first().map(|s| s.as_str()) {
        Some("worker") => worker(),
        Some("replay") => replay(&args),
        Some("cli") => cli_stage(&args),
        Some("one") => {
            install_hook();
            let prog = std::env::args().nth(2).unwrap_or_default();
            let input = std::env::args().nth(3).unwrap_or_else(|| "null".into());
            for v in run_prog(&prog, input.as_bytes(), "", false) {
                println!("{v}");
            }
        }
        _ => die("usage: c30 replay|cli|worker|one ..."),
    }
}
