//! Shared by c14 / c16 (YAML group): the trusted renderer of abstract presentations
//! (spec/YamlPresentation.tla REPLAY records) to YAML bytes, the expected-value model,
//! and the comparison of a loaded document with the value the denotation predicts.
//!
//! The renderer is the trusted inverse of loading; it is kept deliberately simple and only
//! emits constructs whose YAML 1.2 meaning is beyond doubt (see the header of
//! YamlPresentation.tla for what is excluded).
#![allow(dead_code)]

use succinctly::yaml::{resolve_plain, ResolvedScalar, YamlCursor, YamlIndex, YamlValue};
use verif_harness::*;

#[derive(Debug, Clone, PartialEq)]
pub enum Exp {
    Null,
    Bool(bool),
    Int(i64),
    Str(String),
    Seq(Vec<Exp>),
    Map(Vec<(String, Exp)>),
}

pub fn tok_to_string(toks: &Value) -> String {
    let mut s = String::new();
    for t in toks.as_array().expect("token list") {
        let t = t.as_str().expect("token");
        if t == "LF" {
            s.push('\n');
        } else if t == "TAB" {
            s.push('\t');
        } else if let Some(h) = t.strip_prefix("U+") {
            s.push(char::from_u32(u32::from_str_radix(h, 16).expect("hex")).expect("scalar value"));
        } else {
            assert!(t.chars().count() == 1, "bad token {t}");
            s.push_str(t);
        }
    }
    s
}

pub fn exp_of(v: &Value) -> Exp {
    match v["t"].as_str().expect("t") {
        "null" => Exp::Null,
        "bool" => Exp::Bool(v["b"].as_bool().expect("b")),
        "int" => Exp::Int(v["i"].as_i64().expect("i")),
        "str" => Exp::Str(tok_to_string(&v["s"])),
        "seq" => Exp::Seq(v["v"].as_array().expect("v").iter().map(exp_of).collect()),
        "map" => Exp::Map(
            v["kv"]
                .as_array()
                .expect("kv")
                .iter()
                .map(|p| (tok_to_string(&p[0]), exp_of(&p[1])))
                .collect(),
        ),
        x => panic!("bad value tag {x}"),
    }
}

pub fn exp_json(e: &Exp) -> Value {
    match e {
        Exp::Null => Value::Null,
        Exp::Bool(b) => json!(b),
        Exp::Int(i) => json!(i),
        Exp::Str(s) => json!(s),
        Exp::Seq(v) => Value::Array(v.iter().map(exp_json).collect()),
        Exp::Map(kv) => {
            let mut m = serde_json::Map::new();
            for (k, v) in kv {
                m.insert(k.clone(), exp_json(v));
            }
            Value::Object(m)
        }
    }
}

// ---------------------------------------------------------------------------------------
// abstract presentation
// ---------------------------------------------------------------------------------------

#[derive(Debug, Clone, Default)]
pub struct Node {
    pub k: String,
    pub p: usize,
    pub r: String,
    pub s: String,
    pub st: String,
    pub ch: String,
    pub vr: u64,
    pub an: u64,
    pub tg: usize,
    pub cm: u64,
    pub pre: u64,
    pub kids: Vec<usize>,
}

#[derive(Debug, Clone)]
pub struct Doc {
    pub nodes: Vec<Node>, // 1-based, nodes[0] is a dummy
    pub ds: bool,
    pub de: bool,
    pub w: usize,
    pub zi: bool,
    pub cmp: bool,
    pub fsp: bool,
    pub val: Exp,
}

#[derive(Debug, Clone)]
pub struct Stream {
    pub docs: Vec<Doc>,
    pub br: String,
}

pub fn stream_of(v: &Value) -> Stream {
    let mut docs = vec![];
    for d in v["docs"].as_array().expect("docs") {
        let mut nodes = vec![Node::default()];
        for n in d["nodes"].as_array().expect("nodes") {
            nodes.push(Node {
                k: n["k"].as_str().unwrap().to_string(),
                p: n["p"].as_u64().unwrap() as usize,
                r: n["r"].as_str().unwrap().to_string(),
                s: tok_to_string(&n["s"]),
                st: n["st"].as_str().unwrap().to_string(),
                ch: n["ch"].as_str().unwrap().to_string(),
                vr: n["vr"].as_u64().unwrap(),
                an: n["an"].as_u64().unwrap(),
                tg: n["tg"].as_u64().unwrap() as usize,
                cm: n["cm"].as_u64().unwrap(),
                pre: n["pre"].as_u64().unwrap(),
                kids: vec![],
            });
        }
        for i in 1..nodes.len() {
            let p = nodes[i].p;
            if p != 0 {
                nodes[p].kids.push(i);
            }
        }
        let o = &d["o"];
        docs.push(Doc {
            nodes,
            ds: o["ds"].as_u64().unwrap() == 1,
            de: o["de"].as_u64().unwrap() == 1,
            w: o["w"].as_u64().unwrap() as usize,
            zi: o["zi"].as_u64().unwrap() == 1,
            cmp: o["cmp"].as_u64().unwrap() == 1,
            fsp: o["fsp"].as_u64().unwrap() == 1,
            val: exp_of(&d["val"]),
        });
    }
    Stream { docs, br: v["br"].as_str().unwrap().to_string() }
}

// ---------------------------------------------------------------------------------------
// renderer
// ---------------------------------------------------------------------------------------

fn comment_text(cm: u64) -> &'static str {
    if cm == 1 {
        "# c"
    } else {
        "# k: 'v \"w [x, {y #z"
    }
}

fn sp(n: usize) -> String {
    " ".repeat(n)
}

fn dq_escape(s: &str, numeric: bool) -> String {
    let mut o = String::from("\"");
    for c in s.chars() {
        let u = c as u32;
        match c {
            '"' => o.push_str("\\\""),
            '\\' => o.push_str("\\\\"),
            _ if !numeric && c == '\n' => o.push_str("\\n"),
            _ if !numeric && c == '\t' => o.push_str("\\t"),
            _ if !numeric && c == '\r' => o.push_str("\\r"),
            _ if !numeric && u == 0 => o.push_str("\\0"),
            _ if !numeric && u == 7 => o.push_str("\\a"),
            _ if !numeric && u == 8 => o.push_str("\\b"),
            _ if !numeric && u == 0x0b => o.push_str("\\v"),
            _ if !numeric && u == 0x0c => o.push_str("\\f"),
            _ if !numeric && u == 0x1b => o.push_str("\\e"),
            _ if !numeric && u == 0x85 => o.push_str("\\N"),
            _ if !numeric && u == 0xa0 => o.push_str("\\_"),
            _ if !numeric && u == 0x2028 => o.push_str("\\L"),
            _ if !numeric && u == 0x2029 => o.push_str("\\P"),
            _ if (0x20..0x7f).contains(&u) => o.push(c),
            _ if !numeric && u >= 0xa1 && u != 0xfeff && !(0x2028..=0x2029).contains(&u) => o.push(c),
            _ if u < 0x100 => o.push_str(&format!("\\x{u:02x}")),
            _ if u < 0x10000 => o.push_str(&format!("\\u{u:04X}")),
            _ => o.push_str(&format!("\\U{u:08X}")),
        }
    }
    o.push('"');
    o
}

pub struct Renderer<'a> {
    d: &'a Doc,
    pub lines: Vec<String>,
}

impl<'a> Renderer<'a> {
    fn n(&self, i: usize) -> &'a Node {
        &self.d.nodes[i]
    }
    fn props(&self, i: usize) -> String {
        if self.n(i).an == 1 {
            format!("&a{i} ")
        } else {
            String::new()
        }
    }
    fn scalar_inline(&self, i: usize) -> String {
        let n = self.n(i);
        match n.st.as_str() {
            "plain" => n.s.clone(),
            "single" => format!("'{}'", n.s.replace('\'', "''")),
            "double" => dq_escape(&n.s, n.vr == 1),
            x => panic!("not an inline scalar style {x}"),
        }
    }
    /// text of a node presented on one line: flow scalar, alias or flow collection
    fn inline(&self, i: usize) -> String {
        let n = self.n(i);
        let t = match n.k.as_str() {
            "alias" => format!("*a{}", n.tg),
            "str" => format!("{}{}", self.props(i), self.scalar_inline(i)),
            "seq" => {
                let items: Vec<String> = n.kids.iter().map(|&c| self.inline(c)).collect();
                let body = if items.is_empty() {
                    "[]".to_string()
                } else if self.d.fsp {
                    format!("[ {} ]", items.join(" , "))
                } else {
                    format!("[{}]", items.join(", "))
                };
                format!("{}{}", self.props(i), body)
            }
            "map" => {
                let mut items = vec![];
                for kv in n.kids.chunks(2) {
                    items.push(format!("{}: {}", self.inline(kv[0]), self.inline(kv[1])));
                }
                let body = if items.is_empty() {
                    "{}".to_string()
                } else if self.d.fsp {
                    format!("{{ {} }}", items.join(" , "))
                } else {
                    format!("{{{}}}", items.join(", "))
                };
                format!("{}{}", self.props(i), body)
            }
            x => panic!("bad kind {x}"),
        };
        t.trim_end_matches(' ').to_string()
    }
    fn block_scalar_lines(&self, i: usize) -> Vec<String> {
        let n = self.n(i);
        let body = n.s.trim_end_matches('\n');
        let t = n.s.len() - body.len();
        let mut out: Vec<String> = vec![];
        if n.st == "lit" {
            for l in body.split('\n') {
                out.push(l.to_string());
            }
        } else {
            for (idx, seg) in body.split('\n').enumerate() {
                if idx > 0 {
                    out.push(String::new());
                }
                if seg.is_empty() {
                    continue;
                }
                let splittable =
                    n.vr == 1 && !seg.contains("  ") && !seg.starts_with(' ') && !seg.ends_with(' ');
                if splittable {
                    for w in seg.split(' ') {
                        out.push(w.to_string());
                    }
                } else {
                    out.push(seg.to_string());
                }
            }
        }
        if n.ch == "+" {
            for _ in 1..t {
                out.push(String::new());
            }
        }
        out
    }
    fn pre_line(&mut self, pre: u64, ind: usize) {
        match pre {
            0 => {}
            1 => self.lines.push(String::new()),
            2 => self.lines.push(format!("{}# note", sp(ind))),
            _ => self.lines.push(format!("{}# - k: 'v \"w [x", sp(ind))),
        }
    }
    /// Emit node `i` whose line so far is `prefix` (indentation + `key:` or `-`, or empty for
    /// the root); `ind` is the indentation of the enclosing collection's entries.
    fn emit_value(&mut self, i: usize, ind: usize, prefix: String, root: bool) {
        let n = self.n(i);
        let cm = if n.cm > 0 { Some(comment_text(n.cm)) } else { None };
        let block_coll = (n.k == "map" || n.k == "seq") && n.st == "block";
        let block_scalar = n.st == "lit" || n.st == "fold";
        let join = |a: &str, b: &str| -> String {
            if a.is_empty() {
                b.to_string()
            } else if b.is_empty() {
                a.to_string()
            } else {
                format!("{a} {b}")
            }
        };
        if !block_coll && !block_scalar {
            let mut line = join(&prefix, &self.inline(i));
            if let Some(c) = cm {
                line = join(&line, c);
            }
            self.lines.push(line);
        } else if block_scalar {
            let header = format!("{}{}{}", self.props(i), if n.st == "lit" { "|" } else { ">" }, n.ch);
            let mut line = join(&prefix, &header);
            if let Some(c) = cm {
                line = join(&line, c);
            }
            self.lines.push(line);
            let cind = if root { self.d.w } else { ind + self.d.w };
            for l in self.block_scalar_lines(i) {
                if l.is_empty() {
                    self.lines.push(String::new());
                } else {
                    self.lines.push(format!("{}{}", sp(cind), l));
                }
            }
        } else {
            let anchor = if n.an == 1 { format!("&a{i}") } else { String::new() };
            if root {
                if n.an == 1 {
                    if self.d.ds {
                        let l = self.lines.last_mut().unwrap();
                        l.push(' ');
                        l.push_str(&anchor);
                    } else {
                        self.lines.push(anchor);
                    }
                }
                self.emit_entries(i, 0, None);
            } else if n.r == "val" {
                let mut line = join(&prefix, &anchor);
                if let Some(c) = cm {
                    line = join(&line, c);
                }
                self.lines.push(line);
                let e = if n.k == "seq" && self.d.zi { ind } else { ind + self.d.w };
                self.emit_entries(i, e, None);
            } else {
                // sequence item
                if self.d.cmp && n.an == 0 && cm.is_none() {
                    self.emit_entries(i, ind + 2, Some(format!("{prefix} ")));
                } else {
                    let mut line = join(&prefix, &anchor);
                    if let Some(c) = cm {
                        line = join(&line, c);
                    }
                    self.lines.push(line);
                    self.emit_entries(i, ind + self.d.w, None);
                }
            }
        }
    }
    fn emit_entries(&mut self, c: usize, ind: usize, first_prefix: Option<String>) {
        let n = self.n(c);
        if n.k == "map" {
            for (j, kv) in n.kids.chunks(2).enumerate() {
                let kt = self.inline(kv[0]);
                let p = if j == 0 && first_prefix.is_some() {
                    format!("{}{}:", first_prefix.as_ref().unwrap(), kt)
                } else {
                    self.pre_line(self.n(kv[0]).pre, ind);
                    format!("{}{}:", sp(ind), kt)
                };
                self.emit_value(kv[1], ind, p, false);
            }
        } else {
            for (j, &it) in n.kids.iter().enumerate() {
                let p = if j == 0 && first_prefix.is_some() {
                    format!("{}-", first_prefix.as_ref().unwrap())
                } else {
                    self.pre_line(self.n(it).pre, ind);
                    format!("{}-", sp(ind))
                };
                self.emit_value(it, ind, p, false);
            }
        }
    }
}

pub fn render(s: &Stream) -> Vec<u8> {
    let mut lines: Vec<String> = vec![];
    for d in &s.docs {
        let mut r = Renderer { d, lines: vec![] };
        if d.ds {
            r.lines.push("---".to_string());
        }
        r.emit_value(1, 0, String::new(), true);
        if d.de {
            r.lines.push("...".to_string());
        }
        lines.extend(r.lines);
    }
    let br = match s.br.as_str() {
        "LF" => "\n",
        "CRLF" => "\r\n",
        "CR" => "\r",
        x => panic!("bad break {x}"),
    };
    let mut out = String::new();
    for l in lines {
        out.push_str(&l);
        out.push_str(br);
    }
    out.into_bytes()
}

// ---------------------------------------------------------------------------------------
// comparison of the loaded document with the denotation
// ---------------------------------------------------------------------------------------

fn show(v: &YamlValue<'_>) -> String {
    match v {
        YamlValue::Null => "Null".into(),
        YamlValue::String(s) => format!(
            "String({}{:?})",
            if s.is_unquoted() { "plain " } else { "" },
            s.as_str().map(|c| c.into_owned())
        ),
        YamlValue::Mapping(_) => "Mapping".into(),
        YamlValue::Sequence(_) => "Sequence".into(),
        YamlValue::Alias { anchor_name, .. } => format!("Alias({anchor_name})"),
        YamlValue::Error(e) => format!("Error({e})"),
    }
}

pub fn cmp_value(v0: YamlValue<'_>, e: &Exp, path: &str) -> Result<(), String> {
    // resolve aliases (the denotation has none left)
    let mut v = v0;
    let mut hops = 0;
    while let YamlValue::Alias { target, anchor_name } = &v {
        let t = target.ok_or_else(|| format!("{path}: alias *{anchor_name} has no target"))?;
        v = t.value();
        hops += 1;
        if hops > 100 {
            return Err(format!("{path}: alias chain too long"));
        }
    }
    let mism = |v: &YamlValue<'_>| Err(format!("{path}: expected {e:?}, loaded {}", show(v)));
    match e {
        Exp::Null => match &v {
            YamlValue::Null => Ok(()),
            YamlValue::String(s) if s.is_unquoted() => match s.as_str() {
                Ok(t) if resolve_plain(&t) == ResolvedScalar::Null => Ok(()),
                _ => mism(&v),
            },
            _ => mism(&v),
        },
        Exp::Bool(b) => match &v {
            YamlValue::String(s) if s.is_unquoted() => match s.as_str() {
                Ok(t) if resolve_plain(&t) == ResolvedScalar::Bool(*b) => Ok(()),
                _ => mism(&v),
            },
            _ => mism(&v),
        },
        Exp::Int(i) => match &v {
            YamlValue::String(s) if s.is_unquoted() => match s.as_str() {
                Ok(t) if resolve_plain(&t) == ResolvedScalar::Int(*i) => Ok(()),
                _ => mism(&v),
            },
            _ => mism(&v),
        },
        Exp::Str(x) => match &v {
            YamlValue::String(s) => match s.as_str() {
                Ok(t) if t == x.as_str() && (!s.is_unquoted() || resolve_plain(&t) == ResolvedScalar::Str) => Ok(()),
                _ => mism(&v),
            },
            _ => mism(&v),
        },
        Exp::Seq(items) => match &v {
            YamlValue::Sequence(el) => {
                let mut cur = *el;
                let mut got = vec![];
                while let Some((c, rest)) = cur.uncons_cursor() {
                    got.push(c);
                    cur = rest;
                    if got.len() > items.len() + 1 {
                        break;
                    }
                }
                if got.len() != items.len() {
                    return Err(format!("{path}: expected {} items, loaded {}{}", items.len(), got.len(),
                        if got.len() > items.len() { "+" } else { "" }));
                }
                for (j, (c, x)) in got.iter().zip(items).enumerate() {
                    cmp_value(c.value(), x, &format!("{path}[{j}]"))?;
                }
                Ok(())
            }
            _ => mism(&v),
        },
        Exp::Map(kvs) => match &v {
            YamlValue::Mapping(f) => {
                let mut got = vec![];
                let mut cur = f.clone();
                while let Some((fld, rest)) = cur.uncons() {
                    got.push(fld);
                    cur = rest;
                    if got.len() > kvs.len() + 1 {
                        break;
                    }
                }
                if got.len() != kvs.len() {
                    return Err(format!("{path}: expected {} fields, loaded {}", kvs.len(), got.len()));
                }
                for (fld, (k, x)) in got.iter().zip(kvs) {
                    match fld.key() {
                        YamlValue::String(s) => match s.as_str() {
                            Ok(t) if t == k.as_str() => {}
                            o => return Err(format!("{path}: expected key {k:?}, loaded {o:?}")),
                        },
                        o => return Err(format!("{path}: expected key {k:?}, loaded {}", show(&o))),
                    }
                    cmp_value(fld.value(), x, &format!("{path}.{k}"))?;
                }
                Ok(())
            }
            _ => mism(&v),
        },
    }
}

/// Document cursors under the virtual root sequence.
pub fn doc_cursors<'a>(index: &'a YamlIndex, text: &'a [u8]) -> Result<Vec<YamlCursor<'a>>, String> {
    let root = index.root(text);
    match root.value() {
        YamlValue::Sequence(el) => {
            let mut cur = el;
            let mut out = vec![];
            while let Some((c, rest)) = cur.uncons_cursor() {
                out.push(c);
                cur = rest;
                if out.len() > 1000 {
                    break;
                }
            }
            Ok(out)
        }
        o => Err(format!("root is not a sequence: {}", show(&o))),
    }
}

/// (stage, detail) of the first disagreement between the real loader and the denotation.
pub fn check_load(text: &[u8], s: &Stream) -> Option<(String, String)> {
    let built = guarded(|| YamlIndex::build(text));
    let index = match built {
        Err(p) => return Some(("panic".into(), format!("YamlIndex::build panicked: {p}"))),
        Ok(Err(e)) => return Some(("build".into(), format!("YamlIndex::build error: {e}"))),
        Ok(Ok(i)) => i,
    };
    let r = guarded(|| -> Option<(String, String)> {
        let docs = match doc_cursors(&index, text) {
            Ok(d) => d,
            Err(e) => return Some(("value".into(), e)),
        };
        if docs.len() != s.docs.len() {
            return Some(("value".into(), format!("expected {} documents, loaded {}", s.docs.len(), docs.len())));
        }
        for (di, (c, d)) in docs.iter().zip(&s.docs).enumerate() {
            if let Err(e) = cmp_value(c.value(), &d.val, &format!("doc{di}")) {
                return Some(("value".into(), e));
            }
        }
        // JSON output, token comparison
        let want: Vec<Value> = s.docs.iter().map(|d| exp_json(&d.val)).collect();
        for (di, c) in docs.iter().enumerate() {
            let js = c.to_json();
            match serde_json::from_str::<Value>(&js) {
                Ok(v) if v == want[di] => {}
                Ok(_) => return Some(("json".into(), format!("doc{di}: to_json = {js}  expected {}", want[di]))),
                Err(e) => return Some(("json".into(), format!("doc{di}: to_json is not JSON ({e}): {js}"))),
            }
        }
        let root = index.root(text);
        let js = root.to_json();
        match serde_json::from_str::<Value>(&js) {
            Ok(v) if v == Value::Array(want.clone()) => {}
            _ => return Some(("json".into(), format!("root.to_json = {js}  expected {}", Value::Array(want.clone())))),
        }
        let jd = root.to_json_document();
        let wd = if want.len() == 1 { want[0].clone() } else { Value::Array(want.clone()) };
        match serde_json::from_str::<Value>(&jd) {
            Ok(v) if v == wd => {}
            _ => return Some(("json".into(), format!("root.to_json_document = {jd}  expected {wd}"))),
        }
        None
    });
    match r {
        Ok(x) => x,
        Err(p) => Some(("panic".into(), format!("panic while walking the loaded document: {p}"))),
    }
}
