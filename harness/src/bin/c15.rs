//! C15 — yq never emits YAML it cannot read back.
//!
//! usage: c15 run <cases.ndjson> <trace.ndjson> <cases-out.ndjson> cli=<path to succinctly> tmp=<dir> [threads=N]
//!
//! Each input line is one REPLAY record of spec/Gen_YqWrite.tla: an input stream presentation
//! (rendered by the trusted C14 renderer), a write program (abstract steps, rendered here as
//! jq text: paths `.["key"][i]`, literals as JSON) and an indent 0..7.  For each case
//!   succinctly yq -I <n> <prog> <file>            (YAML output)
//!   succinctly yq -o json -I 0 <prog> <file>      (JSON output)
//! are run; the YAML output is reloaded with the LIBRARY loader (YamlIndex::build + a walk over
//! YamlCursor/YamlValue, plain scalars typed by resolve_plain) and the trace validated by
//! spec/Trace_YqWrite.tla is written:
//!   {"e":"case","id":n}
//!   {"e":"obs","src":"json","v":[tokens],"n":len}   {"e":"obs","src":"yaml","v":[tokens],"n":len}
//!   {"e":"doc"} {"e":"anchor","name","v":[tokens]} {"e":"alias","name","v":[tokens]}   (text order;
//!        an alias carries the value the JSON run has at the alias's path)
//!   {"e":"fail","id":n,"what":..}    the printed YAML could not be reloaded / disagrees in shape
//! Skipped and counted, never reported (see checks/c15.py): both commands fail; exactly one
//! fails; a result that is a scalar at the document root (printed raw by design).
#[path = "yaml_common/mod.rs"]
mod common;
use common::*;
use std::io::BufRead;
use std::process::Command;
use succinctly::yaml::{resolve_plain, ResolvedScalar, YamlCursor, YamlIndex, YamlValue};
use verif_harness::*;

fn jstr(s: &str) -> String {
    serde_json::to_string(s).unwrap()
}

/// path of node `i` from the root of its document: (jq text, ok)
fn path_of(d: &Doc, i: usize) -> String {
    let mut elems: Vec<String> = vec![];
    let mut c = i;
    while d.nodes[c].p != 0 {
        let p = d.nodes[c].p;
        let kids = &d.nodes[p].kids;
        let pos = kids.iter().position(|&k| k == c).unwrap();
        if d.nodes[p].k == "map" {
            let key = &d.nodes[kids[pos - 1]];
            elems.push(format!("[{}]", jstr(&key.s)));
        } else {
            elems.push(format!("[{pos}]"));
        }
        c = p;
    }
    elems.reverse();
    format!(".{}", elems.join(""))
}

/// relative path from ancestor `a` down to `i` (both in document d)
fn rel_path(d: &Doc, a: usize, i: usize) -> String {
    let full = path_of(d, i);
    let base = path_of(d, a);
    full[base.len()..].to_string()
}

fn lit_text(l: &Value) -> String {
    let s = tok_to_string(&l["s"]);
    match l["k"].as_str().unwrap() {
        "str" => jstr(&s),
        "int" => s,
        "null" => "null".into(),
        "bool" => "true".into(),
        "map" => format!("{{{}: {}}}", jstr(&tok_to_string(&l["key"])), jstr(&s)),
        "seq" => format!("[{}, {}]", jstr(&s), jstr("z")),
        "emptymap" => "{}".into(),
        "emptyseq" => "[]".into(),
        "none" => String::new(),
        x => panic!("bad literal kind {x}"),
    }
}

fn step_text(d: &Doc, st: &Value) -> String {
    let tn = st["tn"].as_u64().unwrap() as usize;
    let sub = st["sub"].as_u64().unwrap() as usize;
    let tn2 = st["tn2"].as_u64().unwrap() as usize;
    let mut p = path_of(d, tn);
    if sub != 0 {
        // continue through the alias into the aliased subtree
        let tg = d.nodes[tn].tg;
        let r = rel_path(d, tg, sub);
        p = if p == "." { format!(".{r}") } else { format!("{p}{r}") };
    }
    let lit = lit_text(&st["lit"]).replace('\u{0}', "");
    match st["op"].as_str().unwrap() {
        "id" => ".".into(),
        "get" => p,
        "assign" => format!("{p} = {lit}"),
        "newkey" => {
            let k = jstr(&tok_to_string(&st["klit"]));
            if p == "." {
                format!(".[{k}] = {lit}")
            } else {
                format!("{p}[{k}] = {lit}")
            }
        }
        "update" => format!("{p} |= {lit}"),
        "updid" => format!("{p} |= ."),
        "add" => format!("{p} += {lit}"),
        "del" => format!("del({p})"),
        "merge" => format!("{p} * {}", path_of(d, tn2)),
        "mergeas" => format!("{p} *= {}", path_of(d, tn2)),
        x => panic!("bad op {x}"),
    }
}

fn num_token(n: &serde_json::Number) -> String {
    if let Some(i) = n.as_i64() {
        return format!("n:{i}");
    }
    let f = n.as_f64().unwrap_or(f64::NAN);
    if f.fract() == 0.0 && f.abs() < 9.0e15 {
        format!("n:{}", f as i64)
    } else {
        format!("n:{f:e}")
    }
}

fn hex(s: &str) -> String {
    s.bytes().map(|b| format!("{b:02x}")).collect()
}

fn tokens(v: &Value, out: &mut Vec<String>) {
    match v {
        Value::Null => out.push("null".into()),
        Value::Bool(b) => out.push(format!("{b}")),
        Value::Number(n) => out.push(num_token(n)),
        Value::String(s) => out.push(format!("s:{}", hex(s))),
        Value::Array(a) => {
            out.push("[".into());
            for x in a {
                tokens(x, out);
            }
            out.push("]".into());
        }
        Value::Object(m) => {
            out.push("{".into());
            for (k, x) in m {
                out.push(format!("k:{}", hex(k)));
                tokens(x, out);
            }
            out.push("}".into());
        }
    }
}

fn toks(v: &Value) -> Vec<String> {
    let mut o = vec![];
    tokens(v, &mut o);
    o
}

/// The loaded value as a JSON value (aliases resolved; plain scalars typed by resolve_plain).
fn to_value(v: YamlValue<'_>, depth: usize) -> Result<Value, String> {
    if depth > 200 {
        return Err("too deep".into());
    }
    Ok(match v {
        YamlValue::Null => Value::Null,
        YamlValue::Error(e) => return Err(format!("error node: {e}")),
        YamlValue::Alias { target, anchor_name } => {
            to_value(target.ok_or_else(|| format!("alias *{anchor_name} without target"))?.value(), depth + 1)?
        }
        YamlValue::String(s) => {
            let t = s.as_str().map_err(|e| format!("undecodable scalar: {e}"))?;
            if s.is_unquoted() {
                match resolve_plain(&t) {
                    ResolvedScalar::Null => Value::Null,
                    ResolvedScalar::Bool(b) => json!(b),
                    ResolvedScalar::Int(i) => json!(i),
                    ResolvedScalar::Float(f) => serde_json::Number::from_f64(f).map(Value::Number).unwrap_or(Value::Null),
                    ResolvedScalar::Str => json!(t),
                }
            } else {
                json!(t)
            }
        }
        YamlValue::Sequence(el) => {
            let mut cur = el;
            let mut a = vec![];
            while let Some((c, rest)) = cur.uncons_cursor() {
                a.push(to_value(c.value(), depth + 1)?);
                cur = rest;
            }
            Value::Array(a)
        }
        YamlValue::Mapping(f) => {
            let mut cur = f;
            let mut m = serde_json::Map::new();
            while let Some((fld, rest)) = cur.uncons() {
                m.insert(fld.key().key_string().into_owned(), to_value(fld.value(), depth + 1)?);
                cur = rest;
            }
            Value::Object(m)
        }
    })
}

/// Node events of one reloaded document in text order, walked in parallel with the JSON value.
fn node_events(c: YamlCursor<'_>, jv: &Value, ev: &mut Vec<Value>, depth: usize) {
    if depth > 200 {
        return;
    }
    if c.is_alias() {
        if let Some(name) = c.alias() {
            ev.push(json!({"e": "alias", "name": name, "v": toks(jv)}));
        }
        return;
    }
    if let Some(name) = c.anchor() {
        let v = to_value(c.value(), 0).unwrap_or(Value::String("<unreadable>".into()));
        ev.push(json!({"e": "anchor", "name": name, "v": toks(&v)}));
    }
    match c.value() {
        YamlValue::Sequence(el) => {
            let mut cur = el;
            let mut j = 0;
            while let Some((cc, rest)) = cur.uncons_cursor() {
                if let Some(x) = jv.get(j) {
                    node_events(cc, x, ev, depth + 1);
                }
                j += 1;
                cur = rest;
            }
        }
        YamlValue::Mapping(f) => {
            let mut cur = f;
            while let Some((fld, rest)) = cur.uncons() {
                let kc = fld.key_cursor();
                let k = fld.key().key_string().into_owned();
                if let Some(name) = kc.anchor() {
                    ev.push(json!({"e": "anchor", "name": name, "v": toks(&json!(k))}));
                }
                if let Some(x) = jv.get(&k) {
                    node_events(fld.value_cursor(), x, ev, depth + 1);
                }
                cur = rest;
            }
        }
        _ => {}
    }
}

/// K2 trigger in a YAML text (known loader defect, C14): at indentation 0 an entry with an
/// empty value followed (blank / comment lines skipped) by an entry whose key is quoted.
fn has_k2(text: &str) -> bool {
    let lines: Vec<&str> = text.split(['\n', '\r']).collect();
    let mut prev_empty = false;
    for l in lines {
        let t = l.trim_end();
        if t.is_empty() || t.trim_start().starts_with('#') {
            continue;
        }
        if !t.starts_with(' ') && !t.starts_with('-') {
            let body = match t.find(" #") {
                Some(p) => t[..p].trim_end(),
                None => t,
            };
            let key_part = body.trim_start_matches(|c: char| c == '&' || c.is_alphanumeric()).trim_start();
            if prev_empty && (t.starts_with('"') || t.starts_with('\'') || (t.starts_with('&') && (key_part.starts_with('"') || key_part.starts_with('\'')))) {
                return true;
            }
            prev_empty = body.ends_with(':');
        } else {
            prev_empty = false;
        }
    }
    false
}

struct Outcome {
    events: Vec<Value>,
    info: Value,
    kind: &'static str,
}

fn run_case(id: usize, rec: &Value, cli: &str, tmp: &str, tid: usize) -> Outcome {
    let s = stream_of(rec);
    let text = render(&s);
    let d = &s.docs[0];
    let prog: Vec<String> = rec["steps"].as_array().unwrap().iter().map(|st| step_text(d, st)).collect();
    let prog = prog.join(" | ");
    let ind = rec["I"].as_u64().unwrap();
    let file = format!("{tmp}/in-{tid}.yaml");
    std::fs::write(&file, &text).unwrap();
    let run = |args: &[&str]| Command::new(cli).args(args).output().expect("spawn cli");
    let istr = ind.to_string();
    let y = run(&["yq", "-I", &istr, &prog, &file]);
    let j = run(&["yq", "-o", "json", "-I", "0", &prog, &file]);
    let yaml_out = String::from_utf8_lossy(&y.stdout).into_owned();
    let key_anchors: Vec<String> = s.docs.iter().flat_map(|d| (1..d.nodes.len()).filter(|&i| d.nodes[i].r == "key" && d.nodes[i].an == 1)
        .map(|i| format!("a{i}")).collect::<Vec<_>>()).collect();
    let mut info = json!({"id": id, "prog": prog, "I": ind, "key_anchors": key_anchors, "input": String::from_utf8_lossy(&text), "yaml_out": yaml_out,
                          "json_out": String::from_utf8_lossy(&j.stdout), "class": ""});
    let done = |kind: &'static str, events: Vec<Value>, info: Value| Outcome { events, info, kind };
    if !y.status.success() && !j.status.success() {
        return done("both_error", vec![], info);
    }
    if y.status.success() != j.status.success() {
        info["stderr"] = json!(format!("{}{}", String::from_utf8_lossy(&y.stderr), String::from_utf8_lossy(&j.stderr)));
        return done("one_error", vec![], info);
    }
    // JSON side
    let mut jvals: Vec<Value> = vec![];
    for v in serde_json::Deserializer::from_slice(&j.stdout).into_iter::<Value>() {
        match v {
            Ok(v) => jvals.push(v),
            Err(_) => return done("json_unparsable", vec![], info),
        }
    }
    if jvals.iter().any(|v| !v.is_array() && !v.is_object()) {
        return done("root_scalar", vec![], info);
    }
    let mut events = vec![json!({"e": "case", "id": id})];
    let mut jt: Vec<String> = vec![];
    for v in &jvals {
        jt.push("doc".into());
        tokens(v, &mut jt);
    }
    let k2 = has_k2(&yaml_out);
    // YAML side: reload with the library loader
    let fail = |what: String, mut events: Vec<Value>, mut info: Value| {
        if k2 {
            info["class"] = json!("K2");
            return Outcome { events: vec![], info, kind: "known_k2" };
        }
        events.push(json!({"e": "fail", "id": id, "what": what}));
        Outcome { events, info, kind: "fail" }
    };
    if jvals.is_empty() && y.stdout.iter().all(|b| b.is_ascii_whitespace()) {
        return done("empty", vec![], info);
    }
    let built = guarded(|| YamlIndex::build(&y.stdout));
    let index = match built {
        Ok(Ok(i)) => i,
        Ok(Err(e)) => return fail(format!("reload: {e}"), events, info),
        Err(p) => return fail(format!("reload panic: {p}"), events, info),
    };
    let r = guarded(|| -> Result<(Vec<String>, Vec<Value>), String> {
        let docs = doc_cursors(&index, &y.stdout)?;
        let mut yt: Vec<String> = vec![];
        let mut yvals = vec![];
        for c in &docs {
            let v = to_value(c.value(), 0)?;
            yt.push("doc".into());
            tokens(&v, &mut yt);
            yvals.push(v);
        }
        let mut ev = vec![];
        if yvals == jvals {
            for (c, v) in docs.iter().zip(&jvals) {
                ev.push(json!({"e": "doc"}));
                node_events(*c, v, &mut ev, 0);
            }
        }
        Ok((yt, ev))
    });
    match r {
        Ok(Ok((yt, ev))) => {
            if yt != jt && k2 {
                info["class"] = json!("K2");
                return done("known_k2", vec![], info);
            }
            let agree = yt == jt;
            events.push(json!({"e": "obs", "src": "json", "n": jt.len(), "v": jt}));
            events.push(json!({"e": "obs", "src": "yaml", "n": yt.len(), "v": yt}));
            events.extend(ev);
            done(if agree { "ok" } else { "disagree" }, events, info)
        }
        Ok(Err(e)) => fail(format!("reload walk: {e}"), events, info),
        Err(p) => fail(format!("reload walk panic: {p}"), events, info),
    }
}

fn main() {
    let args = Args::parse();
    if args.pos.len() < 4 || args.pos[0] != "run" {
        die("usage: c15 run <cases> <trace> <cases-out> cli=path tmp=dir [threads=N]");
    }
    silence_panics();
    let cli = args.str("cli", "");
    let tmp = args.str("tmp", "/tmp");
    let threads = args.u64("threads", 4) as usize;
    let f = std::fs::File::open(&args.pos[1]).unwrap_or_else(|e| die(&format!("open: {e}")));
    let mut seen = std::collections::HashSet::new();
    let mut cases: Vec<Value> = vec![];
    for l in std::io::BufReader::new(f).lines() {
        let l = l.unwrap();
        if l.trim().is_empty() || !seen.insert(l.clone()) {
            continue;
        }
        cases.push(serde_json::from_str(&l).unwrap_or_else(|e| die(&format!("bad json: {e}"))));
    }
    let n = cases.len();
    let cases = std::sync::Arc::new(cases);
    let mut handles = vec![];
    for t in 0..threads {
        let cases = cases.clone();
        let cli = cli.clone();
        let tmp = tmp.clone();
        handles.push(std::thread::spawn(move || {
            let mut out = vec![];
            let mut i = t;
            while i < cases.len() {
                let o = match guarded(|| run_case(i + 1, &cases[i], &cli, &tmp, t)) {
                    Ok(o) => o,
                    Err(p) => Outcome { events: vec![], info: json!({"id": i + 1, "harness_panic": p, "class": ""}), kind: "harness_error" },
                };
                out.push((i, o));
                i += threads;
            }
            out
        }));
    }
    let mut all: Vec<(usize, Outcome)> = vec![];
    for h in handles {
        all.extend(h.join().unwrap());
    }
    all.sort_by_key(|x| x.0);
    let mut tr = Trace::create(&args.pos[2]);
    let mut co = Trace::create(&args.pos[3]);
    let mut counts: std::collections::BTreeMap<&str, u64> = std::collections::BTreeMap::new();
    let (mut anchors, mut aliases) = (0u64, 0u64);
    for (_, o) in all {
        *counts.entry(o.kind).or_insert(0) += 1;
        for e in &o.events {
            match e["e"].as_str() {
                Some("anchor") => anchors += 1,
                Some("alias") => aliases += 1,
                _ => {}
            }
        }
        let mut info = o.info;
        info["kind"] = json!(o.kind);
        co.emit(info);
        for e in o.events {
            tr.emit(e);
        }
    }
    let ne = tr.finish();
    co.finish();
    println!("{}", json!({"cases": n, "events": ne, "kinds": counts, "anchor_events": anchors, "alias_events": aliases}));
}
