//! C06 — JSON index navigation reproduces every valid document's value.
//!
//! usage: c06 record <out.ndjson> seed=N docs=N [large=BYTES] [nlarge=N] [treemax=N] [walks=N] [steps=N]
//!
//! Events (validated by spec/Trace_JsonDoc.tla):
//!   {"e":"build","doc":i,"family":..,"variant":"build","len":bytes,"r":#nodes,"tree":{nested, small docs only},
//!    "nodes":[{t,d,p,z,s,e[,cp][,lit,atom]}..]}          preorder listing with token spans
//!   {"e":"op","op":"root|first_child|next_sibling|parent","at":id,"r":id|-1}
//!   {"e":"op","op":"value","at":id,"r":kind}              0 null 1 false 2 true 3 num 4 str 5 arr 6 obj 7 Error
//!   {"e":"op","op":"str","at":id,"r":#cp|-1,"cp":[..],"s":offset of raw_bytes}
//!   {"e":"op","op":"num","at":id,"r":num_ok,"lit":"..","atom":"f64 bits"}
//!   {"e":"op","op":"range","at":id,"s":start,"r":end,"rb":raw_bytes()==text[s..e]}
//!   {"e":"op","op":"children|fields|elements|get|find", ...}   see json_common::Walker
//! Cursor identity = bp().rank1(bp_pos) when bp_pos is an open parenthesis, else -3.
#[path = "json_common/mod.rs"]
mod common;

use common::*;
use succinctly::json::light::JsonIndex;
use verif_harness::*;

fn run(args: Args) {
    let mut r = Rng::new(args.seed());
    let docs = args.u64("docs", 100) as usize;
    let large = args.u64("large", 30_000) as usize;
    let treemax = args.u64("treemax", 40) as usize;
    let walks = args.u64("walks", 2) as usize;
    let steps = args.u64("steps", 60) as usize;
    let maxlarge = args.u64("nlarge", 2) as usize;
    let mut tr = Trace::create(&args.pos[1]);
    let mut dropped = 0usize;
    let mut bytes = 0usize;
    let mut nodes = 0usize;
    let mut maxdepth = 0usize;
    let mut nlarge = 0usize;
    for i in 0..docs {
        // every family in turn; the (expensive) large family at most a few times per run
        let mut fam = FAMILIES[i % FAMILIES.len()];
        if i == 1 {
            fam = "usweep-u"; // every BMP scalar value as \uXXXX
        } else if i == 14 {
            fam = "usweep-lit"; // ... and literally
        }
        if fam == "large" {
            nlarge += 1;
            if nlarge > maxlarge {
                fam = "medium";
            }
        }
        let Some(doc) = gen_doc(&mut r, fam, large) else {
            dropped += 1;
            continue;
        };
        bytes += doc.text.len();
        nodes += doc.flat.len();
        maxdepth = maxdepth.max(doc.flat.iter().map(|f| f.d).max().unwrap_or(0));
        let built = guarded(|| JsonIndex::build(&doc.text));
        let idx = match built {
            Ok(x) => x,
            Err(_) => {
                let mut ev = build_event(&doc, i, "build", treemax);
                ev["r"] = json!(-2);
                tr.emit(ev);
                continue;
            }
        };
        tr.emit(build_event(&doc, i, "build", treemax));
        let big = doc.flat.len() > 3000;
        let mut w = Walker { tr: &mut tr, idx: &idx, text: &doc.text, flat: &doc.flat, panicked: false };
        if w.dfs(&mut r, if big { 2 } else { 6 }, if big { 7 } else { 1 }).is_none() {
            continue;
        }
        for _ in 0..walks {
            if w.random_walk(&mut r, steps).is_none() {
                break;
            }
        }
    }
    let n = tr.finish();
    println!("{{\"events\":{n},\"docs\":{docs},\"dropped_by_selfcheck\":{dropped},\"bytes\":{bytes},\"nodes\":{nodes},\"max_depth\":{maxdepth}}}");
}

fn main() {
    let args = Args::parse();
    if args.pos.len() < 2 || args.pos[0] != "record" {
        die("usage: c06 record <out> seed=N docs=N");
    }
    silence_panics();
    // deep documents recurse in the generator / reader: give the worker a large stack
    std::thread::Builder::new()
        .stack_size(512 << 20)
        .spawn(move || run(args))
        .unwrap()
        .join()
        .unwrap_or_else(|_| die("worker panicked"));
}
