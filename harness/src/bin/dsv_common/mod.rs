//! Shared generators for the DSV checks (C20, C21): configurations (distinct byte triples)
//! and class-rich texts.
#![allow(dead_code)]
use succinctly::dsv::DsvConfig;
use verif_harness::*;

#[derive(Clone, Copy, Debug, PartialEq)]
pub struct Cfg {
    pub d: u8,
    pub q: u8,
    pub n: u8,
}

impl Cfg {
    pub fn dsv(&self) -> DsvConfig {
        DsvConfig { delimiter: self.d, quote_char: self.q, newline: self.n }
    }
    pub fn class_byte(&self, c: u64, other: u8) -> u8 {
        match c {
            1 => self.d,
            2 => self.q,
            3 => self.n,
            _ => other,
        }
    }
    pub fn is_special(&self, b: u8) -> bool {
        b == self.d || b == self.q || b == self.n
    }
    /// bytes that are NOT special under this configuration, chosen to sit next to the
    /// special ones (sign bit flipped, +-1) and at the ends of the byte range
    pub fn others(&self) -> Vec<u8> {
        let mut v: Vec<u8> = vec![b'a', b'z', b' ', 0x00, 0x7F, 0x80, 0xFF, b',', b'"', b'\n', b'\r', b'\t', b'\''];
        for s in [self.d, self.q, self.n] {
            v.push(s ^ 0x80);
            v.push(s.wrapping_add(1));
            v.push(s.wrapping_sub(1));
        }
        v.retain(|b| !self.is_special(*b));
        v.dedup();
        v
    }
}

pub const STOCK: [Cfg; 5] = [
    Cfg { d: b',', q: b'"', n: b'\n' },
    Cfg { d: b'\t', q: b'"', n: b'\n' },
    Cfg { d: b'|', q: b'"', n: b'\n' },
    Cfg { d: b';', q: b'\'', n: b'\r' },
    Cfg { d: b',', q: b'\'', n: b'\r' },
];

/// Seeded distinct triples; bytes 0x00, 0x7F, 0x80, 0xFF are over-represented (the engines
/// compare with `as i8` casts and pad the tail chunk with 0x00).
pub fn seeded_cfg(r: &mut Rng) -> Cfg {
    const EDGE: [u8; 10] = [0x00, 0x7F, 0x80, 0xFF, 0x01, 0xFE, 0x81, b'\'', b'\r', b'"'];
    loop {
        let pick = |r: &mut Rng| if r.chance(3, 5) { *r.pick(&EDGE) } else { r.below(256) as u8 };
        let c = Cfg { d: pick(r), q: pick(r), n: pick(r) };
        if c.d != c.q && c.d != c.n && c.q != c.n {
            return c;
        }
    }
}

/// configuration number i of a run: the stock ones first, then seeded
pub fn cfg_for(i: u64, r: &mut Rng) -> Cfg {
    if (i as usize) < STOCK.len() {
        STOCK[i as usize]
    } else if i == STOCK.len() as u64 {
        Cfg { d: 0x00, q: 0x80, n: 0xFF }
    } else if i == STOCK.len() as u64 + 1 {
        Cfg { d: 0xFF, q: 0x00, n: 0x7F }
    } else if i == STOCK.len() as u64 + 2 {
        Cfg { d: 0x80, q: 0x7F, n: 0x00 }
    } else {
        seeded_cfg(r)
    }
}

/// `n` bytes of "soup": weights (per 100) for delimiter, quote, newline; the rest other bytes
pub fn soup(r: &mut Rng, c: &Cfg, n: usize, wd: u64, wq: u64, wn: u64, out: &mut Vec<u8>) {
    let others = c.others();
    // a text usually uses few distinct other bytes so runs are visible
    let o1 = *r.pick(&others);
    let o2 = *r.pick(&others);
    for _ in 0..n {
        let x = r.below(100);
        let b = if x < wd {
            c.d
        } else if x < wd + wq {
            c.q
        } else if x < wd + wq + wn {
            c.n
        } else if r.chance(1, 8) {
            *r.pick(&others)
        } else if r.coin() {
            o1
        } else {
            o2
        };
        out.push(b);
    }
}

pub fn bytes_json(b: &[u8]) -> Value {
    Value::Array(b.iter().map(|x| json!(*x)).collect())
}

pub fn fields_json(fs: &[&[u8]]) -> Value {
    Value::Array(fs.iter().map(|f| bytes_json(f)).collect())
}
