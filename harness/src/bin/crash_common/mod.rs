//! Shared by c19 (malformed input never crashes) and c30 (jq programs never crash).
//!
//! * `call(f)`     — run one library call under catch_unwind; the outcome is data:
//!                   Ok(work) / Err(message) / Panic{msg, loc}.  The panic hook records the
//!                   panic LOCATION (`src/yaml/light.rs:123`) so findings get a specific
//!                   signature.
//! * `Supervisor`  — runs the calls in a WORKER subprocess (this same binary, subcommand
//!                   `worker`), one request line -> one reply line.  If the worker dies
//!                   (SIGABRT on allocation failure, SIGSEGV/SIGABRT on stack overflow) the
//!                   supervisor sees EOF, collects the wait status and the worker's stderr
//!                   tail, and restarts it: process aborts are observed on EVERY input, not
//!                   only on a sample.  A reply that does not arrive within the wall-clock
//!                   budget kills the worker and is INCONCLUSIVE (never a violation).
#![allow(dead_code)]

use std::io::{BufRead, BufReader, Read, Write};
use std::panic::{catch_unwind, AssertUnwindSafe};
use std::process::{Child, ChildStdin, Command, Stdio};
use std::sync::mpsc::{channel, Receiver, RecvTimeoutError};
use std::sync::{Arc, Mutex};
use std::time::Duration;

use verif_harness::{json, Value};

// ------------------------------------------------------------------------------------------
// guarded calls with panic location
// ------------------------------------------------------------------------------------------

static LAST_PANIC: Mutex<Option<(String, String)>> = Mutex::new(None);

/// `/repo/src/yaml/light.rs` -> `src/yaml/light.rs`; std locations keep `library/...`.
pub fn norm_file(f: &str) -> String {
    if let Some(i) = f.find("/library/") {
        return f[i + 1..].to_string();
    }
    if let Some(i) = f.rfind("/src/") {
        // keep the crate name for dependencies in the cargo registry
        if f.contains("/registry/") {
            let head = &f[..i];
            let krate = head.rsplit('/').next().unwrap_or("");
            return format!("{}{}", krate, &f[i..]);
        }
        return f[i + 1..].to_string();
    }
    f.to_string()
}

pub fn install_hook() {
    std::panic::set_hook(Box::new(|info| {
        let loc = info
            .location()
            .map(|l| format!("{}:{}", norm_file(l.file()), l.line()))
            .unwrap_or_else(|| "?".to_string());
        let p = info.payload();
        let msg = if let Some(s) = p.downcast_ref::<&str>() {
            (*s).to_string()
        } else if let Some(s) = p.downcast_ref::<String>() {
            s.clone()
        } else {
            "panic".to_string()
        };
        if let Ok(mut g) = LAST_PANIC.lock() {
            *g = Some((msg, loc));
        }
    }));
}

pub enum Out {
    /// completed with a value; `usize` = amount of work done (nodes visited, bytes printed)
    Ok(usize),
    /// completed with a reported error (message)
    Err(String),
    Panic { msg: String, loc: String },
}

/// The documented, deliberate depth-limit panics (`assert_depth`: "nesting depth exceeds
/// limit of N", rustdoc of MAX_NESTING_DEPTH / MAX_VALUE_TREE_DEPTH / MAX_ALIAS_CHAIN_DEPTH,
/// docs/compliance/yaml/limitations.md) are a documented limit, not a finding.
pub fn is_documented_limit(msg: &str) -> bool {
    msg.starts_with("nesting depth exceeds limit of")
}

pub fn call(f: impl FnOnce() -> Result<usize, String>) -> Out {
    if let Ok(mut g) = LAST_PANIC.lock() {
        *g = None;
    }
    match catch_unwind(AssertUnwindSafe(f)) {
        Ok(Ok(n)) => Out::Ok(n),
        Ok(Err(m)) => Out::Err(if m.is_empty() { "error".to_string() } else { m }),
        Err(_) => {
            let (msg, loc) = LAST_PANIC
                .lock()
                .ok()
                .and_then(|mut g| g.take())
                .unwrap_or_else(|| ("panic".to_string(), "?".to_string()));
            Out::Panic { msg, loc }
        }
    }
}

/// Digits -> '#', so messages that differ only in indices/lengths share a signature.
pub fn norm_msg(m: &str) -> String {
    let mut out = String::new();
    let mut last_hash = false;
    for ch in m.chars().take(160) {
        if ch.is_ascii_digit() {
            if !last_hash {
                out.push('#');
            }
            last_hash = true;
        } else {
            out.push(ch);
            last_hash = false;
        }
    }
    out
}

/// One call outcome as the compact array the supervisor turns into a trace event:
/// `[api, r, m, msg, loc]`  r: 0 value, 1 reported error, -2 panic, -4 documented limit;
/// m: work units (r=0) or message length (r=1).
pub fn out_json(api: &str, o: Out) -> Value {
    match o {
        Out::Ok(n) => json!([api, 0, (n as u64).min(1 << 29), "", ""]),
        Out::Err(m) => json!([api, 1, m.len().clamp(1, 1 << 29), m.chars().take(120).collect::<String>(), ""]),
        Out::Panic { msg, loc } => {
            if is_documented_limit(&msg) {
                json!([api, -4, 0, msg, loc])
            } else {
                json!([api, -2, 0, msg, loc])
            }
        }
    }
}

pub fn hex(b: &[u8]) -> String {
    let mut s = String::with_capacity(b.len() * 2);
    for x in b {
        s.push_str(&format!("{x:02x}"));
    }
    s
}

pub fn unhex(s: &str) -> Vec<u8> {
    (0..s.len() / 2).map(|i| u8::from_str_radix(&s[2 * i..2 * i + 2], 16).unwrap_or(0)).collect()
}

// ------------------------------------------------------------------------------------------
// worker supervision
// ------------------------------------------------------------------------------------------

pub enum Reply {
    Line(String),
    /// worker died: signal number (>0) or -(exit code); stderr tail
    Died { signal: i32, code: i32, stderr: String },
    Timeout,
}

pub struct Supervisor {
    exe: String,
    args: Vec<String>,
    /// address-space limit for the worker in KiB (0 = none), applied with `ulimit -v`
    pub vlimit_kb: u64,
    child: Option<(Child, ChildStdin, Receiver<String>, Arc<Mutex<Vec<u8>>>, std::thread::JoinHandle<()>)>,
    pub restarts: usize,
}

impl Supervisor {
    pub fn new(exe: &str, args: &[&str], vlimit_kb: u64) -> Self {
        Self { exe: exe.to_string(), args: args.iter().map(|s| s.to_string()).collect(), vlimit_kb, child: None, restarts: 0 }
    }

    fn spawn(&mut self) {
        let mut cmd;
        if self.vlimit_kb > 0 {
            cmd = Command::new("sh");
            let mut line = format!("ulimit -v {}; exec \"$0\" \"$@\"", self.vlimit_kb);
            line.push(' ');
            cmd.arg("-c").arg(line.trim_end()).arg(&self.exe).args(&self.args);
        } else {
            cmd = Command::new(&self.exe);
            cmd.args(&self.args);
        }
        cmd.env("RUST_BACKTRACE", "0");
        let mut ch = cmd
            .stdin(Stdio::piped())
            .stdout(Stdio::piped())
            .stderr(Stdio::piped())
            .spawn()
            .unwrap_or_else(|e| verif_harness::die(&format!("cannot spawn worker: {e}")));
        let stdin = ch.stdin.take().unwrap();
        let stdout = ch.stdout.take().unwrap();
        let mut stderr = ch.stderr.take().unwrap();
        let (tx, rx) = channel::<String>();
        std::thread::spawn(move || {
            let r = BufReader::new(stdout);
            for l in r.lines() {
                match l {
                    Ok(l) => {
                        if tx.send(l).is_err() {
                            break;
                        }
                    }
                    Err(_) => break,
                }
            }
        });
        let errbuf = Arc::new(Mutex::new(Vec::<u8>::new()));
        let eb = errbuf.clone();
        let errthread = std::thread::spawn(move || {
            let mut buf = [0u8; 4096];
            loop {
                match stderr.read(&mut buf) {
                    Ok(0) | Err(_) => break,
                    Ok(n) => {
                        let mut g = eb.lock().unwrap();
                        g.extend_from_slice(&buf[..n]);
                        let l = g.len();
                        if l > 8192 {
                            g.drain(..l - 8192);
                        }
                    }
                }
            }
        });
        self.child = Some((ch, stdin, rx, errbuf, errthread));
    }

    fn reap(&mut self) -> (i32, i32, String) {
        use std::os::unix::process::ExitStatusExt;
        if let Some((mut ch, stdin, _rx, eb, errthread)) = self.child.take() {
            drop(stdin);
            let st = ch.wait().ok();
            // the reader ends at EOF of the dead worker's stderr: its last words (allocation
            // failure / stack overflow message) are complete only after the join
            let _ = errthread.join();
            let err = String::from_utf8_lossy(&eb.lock().unwrap()).to_string();
            let (sig, code) = match st {
                Some(s) => (s.signal().unwrap_or(0), s.code().unwrap_or(-1)),
                None => (0, -1),
            };
            self.restarts += 1;
            (sig, code, err)
        } else {
            (0, -1, String::new())
        }
    }

    pub fn request(&mut self, line: &str, timeout: Duration) -> Reply {
        if self.child.is_none() {
            self.spawn();
        }
        let sent = {
            let (_, stdin, _, _, _) = self.child.as_mut().unwrap();
            stdin.write_all(line.as_bytes()).and_then(|_| stdin.write_all(b"\n")).and_then(|_| stdin.flush())
        };
        if sent.is_err() {
            let (signal, code, stderr) = self.reap();
            return Reply::Died { signal, code, stderr };
        }
        let got = {
            let (_, _, rx, _, _) = self.child.as_mut().unwrap();
            rx.recv_timeout(timeout)
        };
        match got {
            Ok(l) => Reply::Line(l),
            Err(RecvTimeoutError::Timeout) => {
                if let Some((ch, _, _, _, _)) = self.child.as_mut() {
                    let _ = ch.kill();
                }
                let _ = self.reap();
                Reply::Timeout
            }
            Err(RecvTimeoutError::Disconnected) => {
                let (signal, code, stderr) = self.reap();
                Reply::Died { signal, code, stderr }
            }
        }
    }

    pub fn shutdown(&mut self) {
        if self.child.is_some() {
            let _ = self.reap();
            self.restarts -= 1;
        }
    }
}

/// "memory allocation of N bytes failed" -> Some(N)
pub fn alloc_failure_bytes(stderr: &str) -> Option<u128> {
    let k = "memory allocation of ";
    let i = stderr.find(k)?;
    let rest = &stderr[i + k.len()..];
    let digits: String = rest.chars().take_while(|c| c.is_ascii_digit()).collect();
    digits.parse().ok()
}

/// Classification of a worker death.
///  "alloc_impossible"  allocation request >= 2^47 bytes (more than any address space) aborted
///  "alloc_refused"     allocation of a size that could legitimately exist was refused by the
///                      sandbox limit -> inconclusive
///  "stack_overflow", "signal", "exit"
pub fn classify_death(signal: i32, code: i32, stderr: &str) -> &'static str {
    if let Some(n) = alloc_failure_bytes(stderr) {
        return if n >= (1u128 << 47) { "alloc_impossible" } else { "alloc_refused" };
    }
    if stderr.contains("has overflowed its stack") {
        return "stack_overflow";
    }
    if signal != 0 {
        "signal"
    } else if code == 101 {
        "exit101"
    } else {
        "exit"
    }
}

/// Run a command with stdin bytes and a wall-clock limit.
/// Returns (kind, exit code or signal, stderr tail): kind in "exit" | "signal" | "timeout".
pub fn run_cli(exe: &str, args: &[String], stdin_bytes: &[u8], timeout: Duration) -> (String, i32, String, usize) {
    use std::os::unix::process::ExitStatusExt;
    let mut ch = match Command::new(exe).args(args).env("RUST_BACKTRACE", "0").stdin(Stdio::piped()).stdout(Stdio::piped()).stderr(Stdio::piped()).spawn() {
        Ok(c) => c,
        Err(e) => verif_harness::die(&format!("cannot run {exe}: {e}")),
    };
    let mut stdin = ch.stdin.take().unwrap();
    let data = stdin_bytes.to_vec();
    let w = std::thread::spawn(move || {
        let _ = stdin.write_all(&data);
    });
    let mut so = ch.stdout.take().unwrap();
    let mut se = ch.stderr.take().unwrap();
    let (tx, rx) = channel::<(Vec<u8>, Vec<u8>)>();
    std::thread::spawn(move || {
        let t = std::thread::spawn(move || {
            let mut e = Vec::new();
            let _ = se.read_to_end(&mut e);
            e
        });
        let mut o = Vec::new();
        let _ = so.read_to_end(&mut o);
        let e = t.join().unwrap_or_default();
        let _ = tx.send((o, e));
    });
    match rx.recv_timeout(timeout) {
        Ok((o, e)) => {
            let _ = w.join();
            let st = ch.wait().ok();
            // head (the "panicked at file:line" line comes first) + tail
            let tail = if e.len() > 1600 {
                format!("{}\n...\n{}", String::from_utf8_lossy(&e[..1000]), String::from_utf8_lossy(&e[e.len() - 500..]))
            } else {
                String::from_utf8_lossy(&e).to_string()
            };
            match st {
                Some(s) => {
                    if let Some(sig) = s.signal() {
                        ("signal".into(), sig, tail, o.len())
                    } else {
                        ("exit".into(), s.code().unwrap_or(-1), tail, o.len())
                    }
                }
                None => ("exit".into(), -1, tail, o.len()),
            }
        }
        Err(_) => {
            let _ = ch.kill();
            let _ = ch.wait();
            ("timeout".into(), 0, String::new(), 0)
        }
    }
}

// ------------------------------------------------------------------------------------------
// parallel supervised replay: items -> outcome lists
// ------------------------------------------------------------------------------------------

pub struct ItemResult {
    /// outcome arrays `[api, r, m, msg, loc, pos?]` — all of them when `compact` is empty,
    /// otherwise only the anomalous ones (r < 0)
    pub outs: Vec<Value>,
    /// compact reply: one char per API of the caller's API table
    /// ('v' value, 'e' error, 'P' anomalous -> see outs, 'L' documented limit, '-' not run)
    pub compact: String,
    /// inconclusive sub-results: (api or "*", kind) — wall-clock overrun, or an allocation of a
    /// size that could legitimately exist refused by the sandbox limit
    pub inconclusive: Vec<(String, String)>,
}

fn parse_reply(l: &str) -> Option<Vec<Value>> {
    match serde_json::from_str::<Value>(l).ok()? {
        Value::Array(a) => Some(a),
        _ => None,
    }
}

fn item_of(v: Value) -> ItemResult {
    match v {
        Value::Array(a) => ItemResult { outs: a, compact: String::new(), inconclusive: vec![] },
        Value::Object(mut o) => {
            let c = o.get("c").and_then(|x| x.as_str()).unwrap_or("").to_string();
            let a = match o.remove("a") {
                Some(Value::Array(a)) => a,
                _ => vec![],
            };
            ItemResult { outs: a, compact: c, inconclusive: vec![] }
        }
        _ => ItemResult { outs: vec![], compact: String::new(), inconclusive: vec![] },
    }
}

/// One item alone; if the worker dies, one fresh request per API finds the call that killed it.
fn run_single(sup: &mut Supervisor, payload: &str, apis: &[String], timeout: Duration) -> ItemResult {
    let mut res = ItemResult { outs: vec![], compact: String::new(), inconclusive: vec![] };
    // ask for the full form ("S" prefix = sampled) so the per-API fallback below can extend it
    let payload = if let Some(p) = payload.strip_prefix('S') { p } else { payload };
    let payload = &format!("S{payload}");
    match sup.request(&format!("* {payload}"), timeout) {
        Reply::Line(l) => {
            if let Some(v) = parse_reply(&l).and_then(|mut a| if a.is_empty() { None } else { Some(a.remove(0)) }) {
                res = item_of(v);
            } else {
                verif_harness::die(&format!("bad worker reply: {l}"));
            }
        }
        first => {
            let _ = first;
            for api in apis {
                match sup.request(&format!("{api} {payload}"), timeout) {
                    Reply::Line(l) => {
                        if let Some(v) = parse_reply(&l).and_then(|mut a| if a.is_empty() { None } else { Some(a.remove(0)) }) {
                            res.outs.extend(item_of(v).outs);
                        }
                    }
                    Reply::Timeout => res.inconclusive.push((api.clone(), "timeout".into())),
                    Reply::Died { signal, code, stderr } => {
                        let kind = classify_death(signal, code, &stderr);
                        if kind == "alloc_refused" {
                            res.inconclusive.push((api.clone(), format!("alloc_refused {} bytes", alloc_failure_bytes(&stderr).unwrap_or(0))));
                        } else {
                            let tail: String = stderr.chars().rev().take(300).collect::<String>().chars().rev().collect();
                            res.outs.push(json!([api, -3, 0, format!("{kind} signal={signal} code={code}: {}", tail.trim()), kind]));
                        }
                    }
                }
            }
        }
    }
    res
}

/// Run every payload through the worker (`exe worker_args...`), `threads` workers in
/// parallel, `batch` payloads per request.  `sink(id, result)` is called on the calling thread
/// (arrival order is not deterministic: sort by id if order matters).
pub fn run_supervised(
    exe: &str,
    worker_args: &[&str],
    vlimit_kb: u64,
    payloads: &[String],
    apis: &[String],
    threads: usize,
    batch: usize,
    timeout: Duration,
    mut sink: impl FnMut(usize, ItemResult),
) -> usize {
    use std::sync::atomic::{AtomicUsize, Ordering};
    let next = AtomicUsize::new(0);
    let restarts = AtomicUsize::new(0);
    let nchunks = payloads.len().div_ceil(batch.max(1));
    let (tx, rx) = channel::<(usize, ItemResult)>();
    std::thread::scope(|sc| {
        for _ in 0..threads.max(1) {
            let tx = tx.clone();
            let next = &next;
            let restarts = &restarts;
            sc.spawn(move || {
                let mut sup = Supervisor::new(exe, worker_args, vlimit_kb);
                loop {
                    let c = next.fetch_add(1, Ordering::SeqCst);
                    if c >= nchunks {
                        break;
                    }
                    let lo = c * batch;
                    let hi = (lo + batch).min(payloads.len());
                    let line = format!("* {}", payloads[lo..hi].join(","));
                    let whole = match sup.request(&line, timeout) {
                        Reply::Line(l) => parse_reply(&l).filter(|a| a.len() == hi - lo),
                        _ => None,
                    };
                    match whole {
                        Some(a) => {
                            for (k, v) in a.into_iter().enumerate() {
                                let _ = tx.send((lo + k, item_of(v)));
                            }
                        }
                        None => {
                            for id in lo..hi {
                                let r = run_single(&mut sup, &payloads[id], apis, timeout);
                                let _ = tx.send((id, r));
                            }
                        }
                    }
                }
                sup.shutdown();
                restarts.fetch_add(sup.restarts, Ordering::SeqCst);
            });
        }
        drop(tx);
        for (id, r) in rx.iter() {
            sink(id, r);
        }
    });
    restarts.load(Ordering::SeqCst)
}

/// Worker side: read request lines `<only|*> <payload>,<payload>,...`, answer one line with
/// a JSON array holding one outcome list per payload.
pub fn worker_loop(mut f: impl FnMut(&str, &str) -> Value) {
    use std::io::BufRead;
    install_hook();
    let stdin = std::io::stdin();
    let mut inp = stdin.lock();
    let stdout = std::io::stdout();
    let mut line = String::new();
    loop {
        line.clear();
        match inp.read_line(&mut line) {
            Ok(0) | Err(_) => break,
            Ok(_) => {}
        }
        let l = line.trim_end_matches(['\n', '\r']);
        let (only, rest) = l.split_once(' ').unwrap_or(("*", l));
        let only = if only == "*" { "" } else { only };
        let mut all = vec![];
        for p in rest.split(',') {
            all.push(f(only, p));
        }
        let mut o = stdout.lock();
        let _ = writeln!(o, "{}", Value::Array(all));
        let _ = o.flush();
    }
}

/// Compact form of an outcome list: one char per API of `table` plus the anomalous outcomes.
pub fn compact_of(table: &[&str], outs: Vec<Value>) -> Value {
    let mut c: Vec<u8> = vec![b'-'; table.len()];
    let mut a = vec![];
    for o in outs {
        let api = o[0].as_str().unwrap_or("");
        let r = o[1].as_i64().unwrap_or(-9);
        let i = table.iter().position(|x| *x == api);
        let ch = match r {
            0 => b'v',
            1 => b'e',
            -4 => b'L',
            _ => b'P',
        };
        if let Some(i) = i {
            c[i] = ch;
        }
        if ch == b'P' || i.is_none() {
            a.push(o);
        }
    }
    json!({"c": String::from_utf8(c).unwrap_or_default(), "a": a})
}

/// Map `f` over `items` with `threads` threads; results in item order.
pub fn par_map<T: Sync, R: Send>(items: &[T], threads: usize, f: impl Fn(usize, &T) -> R + Sync) -> Vec<R> {
    use std::sync::atomic::{AtomicUsize, Ordering};
    let next = AtomicUsize::new(0);
    let out: Mutex<Vec<(usize, R)>> = Mutex::new(Vec::with_capacity(items.len()));
    std::thread::scope(|sc| {
        for _ in 0..threads.max(1) {
            sc.spawn(|| loop {
                let i = next.fetch_add(1, Ordering::SeqCst);
                if i >= items.len() {
                    break;
                }
                let r = f(i, &items[i]);
                out.lock().unwrap().push((i, r));
            });
        }
    });
    let mut v = out.into_inner().unwrap();
    v.sort_by_key(|x| x.0);
    v.into_iter().map(|x| x.1).collect()
}
