//! Shared by c06 / c07 / c31: JSON document generator (tree, layout) -> text with recorded
//! token spans, an independent minimal JSON reader used to cross-check the renderer, the
//! flat (preorder) node listing carried by trace build events, and the walkers that drive
//! the real `JsonIndex` and log one event per API call.
#![allow(dead_code)]

pub mod ib;

use succinctly::json::light::{JsonCursor, JsonIndex, StandardJson};
use verif_harness::*;

// ---------------------------------------------------------------------------------------
// trees
// ---------------------------------------------------------------------------------------

#[derive(Clone, Debug, PartialEq)]
pub enum Node {
    Obj(Vec<(Vec<u32>, Node)>),
    Arr(Vec<Node>),
    Str(Vec<u32>),
    Num(String),
    True,
    False,
    Null,
}

/// One node of the preorder listing (what spec/JsonDoc.tla calls a flat node).
#[derive(Clone, Debug, PartialEq)]
pub struct Flat {
    pub t: &'static str,
    pub d: usize,
    pub p: i64,
    pub z: usize,
    pub s: usize,
    pub e: usize,
    pub cp: Option<Vec<u32>>,
    pub lit: Option<String>,
}

pub fn atom_of(lit: &str) -> String {
    match lit.parse::<f64>() {
        Ok(f) => format!("{:016x}", f.to_bits()),
        Err(_) => "unparsable".to_string(),
    }
}

impl Flat {
    pub fn to_json(&self) -> Value {
        let mut m = serde_json::Map::new();
        m.insert("t".into(), json!(self.t));
        m.insert("d".into(), json!(self.d));
        m.insert("p".into(), json!(self.p));
        m.insert("z".into(), json!(self.z));
        m.insert("s".into(), json!(self.s));
        m.insert("e".into(), json!(self.e));
        if let Some(cp) = &self.cp {
            m.insert("cp".into(), json!(cp));
        }
        if let Some(l) = &self.lit {
            m.insert("lit".into(), json!(l));
            m.insert("atom".into(), json!(atom_of(l)));
        }
        Value::Object(m)
    }
}

// ---------------------------------------------------------------------------------------
// generator
// ---------------------------------------------------------------------------------------

pub const KEYS: [&str; 3] = ["a", "b", "c"];

/// Interesting code points: ASCII, the characters that must be escaped, every UTF-8 length
/// boundary, the edges of the surrogate gap, astral planes.
pub fn gen_cp(r: &mut Rng) -> u32 {
    const EDGE: [u32; 30] = [
        0x00, 0x01, 0x08, 0x09, 0x0A, 0x0C, 0x0D, 0x1F, 0x20, 0x22, 0x2F, 0x5C, 0x7E, 0x7F, 0x80, 0xFF,
        0x7FF, 0x800, 0xD7FF, 0xE000, 0xFFFD, 0xFFFF, 0x10000, 0x10FFFF, 0x1F600, 0x5B, 0x7B, 0x2C, 0x3A,
        0x75,
    ];
    match r.below(10) {
        0..=4 => r.range(0x20, 0x7E) as u32,
        5 => *r.pick(&EDGE),
        6 => r.range(0, 0x1F) as u32,
        7 => r.range(0x80, 0x7FF) as u32,
        8 => {
            let c = r.range(0x800, 0xFFFF) as u32;
            if (0xD800..=0xDFFF).contains(&c) {
                0xE000
            } else {
                c
            }
        }
        _ => r.range(0x10000, 0x10FFFF) as u32,
    }
}

pub fn gen_string(r: &mut Rng, maxlen: usize) -> Vec<u32> {
    let n = match r.below(6) {
        0 => 0,
        1 => 1,
        _ => r.below(maxlen as u64 + 1) as usize,
    };
    (0..n).map(|_| gen_cp(r)).collect()
}

pub fn gen_key(r: &mut Rng) -> Vec<u32> {
    match r.below(10) {
        0..=6 => r.pick(&KEYS).chars().map(|c| c as u32).collect(),
        7 => vec![],
        _ => gen_string(r, 6),
    }
}

/// Every shape of the RFC 8259 number grammar.
pub fn gen_number(r: &mut Rng) -> String {
    let mut s = String::new();
    if r.chance(1, 3) {
        s.push('-');
    }
    // int part
    match r.below(5) {
        0 => s.push('0'),
        1 => s.push((b'1' + r.below(9) as u8) as char),
        4 => {
            s.push((b'1' + r.below(9) as u8) as char);
            for _ in 0..r.range(15, 40) {
                s.push((b'0' + r.below(10) as u8) as char);
            }
        }
        _ => {
            s.push((b'1' + r.below(9) as u8) as char);
            for _ in 0..r.below(9) {
                s.push((b'0' + r.below(10) as u8) as char);
            }
        }
    }
    if r.chance(2, 5) {
        s.push('.');
        let fmax = if r.chance(1, 6) { 30 } else { 6 };
        for _ in 0..r.range(1, fmax) {
            s.push((b'0' + r.below(10) as u8) as char);
        }
    }
    if r.chance(2, 5) {
        s.push(if r.coin() { 'e' } else { 'E' });
        match r.below(3) {
            0 => s.push('+'),
            1 => s.push('-'),
            _ => {}
        }
        for _ in 0..r.range(1, 3) {
            s.push((b'0' + r.below(10) as u8) as char);
        }
    }
    s
}

pub struct GenParams {
    pub max_depth: usize,
    pub budget: usize, // approximate node budget
    pub max_str: usize,
    pub max_width: usize,
}

fn gen_leaf(r: &mut Rng, p: &GenParams) -> Node {
    match r.below(9) {
        0 => Node::True,
        1 => Node::False,
        2 => Node::Null,
        3 | 4 => Node::Num(gen_number(r)),
        5 => Node::Arr(vec![]),
        6 => Node::Obj(vec![]),
        _ => Node::Str(gen_string(r, p.max_str)),
    }
}

pub fn gen_tree(r: &mut Rng, p: &GenParams, depth: usize, budget: &mut usize) -> Node {
    if depth >= p.max_depth || *budget <= 1 || r.chance(1, 4) {
        *budget = budget.saturating_sub(1);
        return gen_leaf(r, p);
    }
    *budget = budget.saturating_sub(1);
    let width = r.below(p.max_width as u64 + 1) as usize;
    if r.coin() {
        let mut v = vec![];
        for _ in 0..width {
            if *budget == 0 {
                break;
            }
            v.push(gen_tree(r, p, depth + 1, budget));
        }
        Node::Arr(v)
    } else {
        let mut kv: Vec<(Vec<u32>, Node)> = vec![];
        for _ in 0..width {
            if *budget < 2 {
                break;
            }
            *budget -= 1;
            // duplicated keys on purpose: reuse an earlier key of this object
            let k = if !kv.is_empty() && r.chance(1, 3) {
                kv[r.below(kv.len() as u64) as usize].0.clone()
            } else {
                gen_key(r)
            };
            kv.push((k, gen_tree(r, p, depth + 1, budget)));
        }
        Node::Obj(kv)
    }
}

/// A chain nested `depth` levels deep (arrays and objects mixed) with a few side branches.
pub fn gen_deep(r: &mut Rng, depth: usize) -> Node {
    let mut cur = gen_leaf(r, &GenParams { max_depth: 0, budget: 1, max_str: 4, max_width: 0 });
    for _ in 0..depth {
        cur = if r.coin() {
            let mut v = vec![];
            if r.chance(1, 4) {
                v.push(Node::Num(gen_number(r)));
            }
            v.push(cur);
            if r.chance(1, 4) {
                v.push(Node::Null);
            }
            Node::Arr(v)
        } else {
            let mut kv = vec![];
            if r.chance(1, 4) {
                kv.push((gen_key(r), Node::True));
            }
            kv.push((gen_key(r), cur));
            if r.chance(1, 4) {
                kv.push((gen_key(r), Node::Str(gen_string(r, 3))));
            }
            Node::Obj(kv)
        };
    }
    cur
}

// ---------------------------------------------------------------------------------------
// renderer: (tree, layout drawn from the rng) -> text + spans
// ---------------------------------------------------------------------------------------

pub struct Layout {
    /// 0 = compact, 1 = short gaps of the four whitespace kinds, 2 = also long gaps
    pub ws_mode: u8,
    /// 0 = escape only what must be, 1 = mix every form
    pub esc_mode: u8,
}

pub struct Rendered {
    pub text: Vec<u8>,
    pub flat: Vec<Flat>,
}

fn ws(r: &mut Rng, lay: &Layout, out: &mut Vec<u8>) {
    const W: [u8; 4] = [b' ', b'\t', b'\n', b'\r'];
    if lay.ws_mode == 0 {
        return;
    }
    let n = match r.below(12) {
        0..=4 => 0,
        5..=7 => 1,
        8..=9 => 2,
        10 => 3,
        _ => {
            if lay.ws_mode >= 2 {
                *r.pick(&[5u64, 17, 63, 64, 65, 130])
            } else {
                4
            }
        }
    };
    for _ in 0..n {
        out.push(*r.pick(&W));
    }
}

fn push_utf8(out: &mut Vec<u8>, cp: u32) {
    let c = char::from_u32(cp).expect("generator never makes surrogates");
    let mut b = [0u8; 4];
    out.extend_from_slice(c.encode_utf8(&mut b).as_bytes());
}

fn push_u(r: &mut Rng, out: &mut Vec<u8>, unit: u32) {
    let s = match r.below(3) {
        0 => format!("\\u{:04x}", unit),
        1 => format!("\\u{:04X}", unit),
        _ => {
            // mixed case digits
            let h = format!("{:04x}", unit);
            let m: String = h
                .chars()
                .map(|c| if r.coin() { c.to_ascii_uppercase() } else { c })
                .collect();
            format!("\\u{}", m)
        }
    };
    out.extend_from_slice(s.as_bytes());
}

pub fn render_string(r: &mut Rng, lay: &Layout, out: &mut Vec<u8>, cps: &[u32]) {
    out.push(b'"');
    for &cp in cps {
        let short: Option<u8> = match cp {
            0x22 => Some(b'"'),
            0x5C => Some(b'\\'),
            0x2F => Some(b'/'),
            0x08 => Some(b'b'),
            0x0C => Some(b'f'),
            0x0A => Some(b'n'),
            0x0D => Some(b'r'),
            0x09 => Some(b't'),
            _ => None,
        };
        let must = cp < 0x20 || cp == 0x22 || cp == 0x5C;
        // 0 literal, 1 short escape, 2 \u form
        let form = if lay.esc_mode == 2 {
            2 // sweep: everything as \uXXXX (pairs for astral)
        } else if lay.esc_mode == 3 && !must {
            0 // sweep: everything literal that may be
        } else if must {
            if short.is_some() && (lay.esc_mode == 0 || r.coin()) {
                1
            } else {
                2
            }
        } else if lay.esc_mode == 0 {
            0
        } else {
            match r.below(4) {
                0 if short.is_some() => 1, // "\/"
                1 => 2,
                _ => 0,
            }
        };
        match form {
            0 => push_utf8(out, cp),
            1 => {
                out.push(b'\\');
                out.push(short.unwrap());
            }
            _ => {
                if cp >= 0x10000 {
                    let v = cp - 0x10000;
                    push_u(r, out, 0xD800 + (v >> 10));
                    push_u(r, out, 0xDC00 + (v & 0x3FF));
                } else {
                    push_u(r, out, cp);
                }
            }
        }
    }
    out.push(b'"');
}

fn render_node(r: &mut Rng, lay: &Layout, n: &Node, d: usize, p: i64, out: &mut Vec<u8>, flat: &mut Vec<Flat>) {
    let me = flat.len();
    let s = out.len();
    let mk = |t: &'static str| Flat { t, d, p, z: 1, s, e: 0, cp: None, lit: None };
    match n {
        Node::True => {
            flat.push(mk("true"));
            out.extend_from_slice(b"true");
        }
        Node::False => {
            flat.push(mk("false"));
            out.extend_from_slice(b"false");
        }
        Node::Null => {
            flat.push(mk("null"));
            out.extend_from_slice(b"null");
        }
        Node::Num(l) => {
            let mut f = mk("num");
            f.lit = Some(l.clone());
            flat.push(f);
            out.extend_from_slice(l.as_bytes());
        }
        Node::Str(cp) => {
            let mut f = mk("str");
            f.cp = Some(cp.clone());
            flat.push(f);
            render_string(r, lay, out, cp);
        }
        Node::Arr(v) => {
            flat.push(mk("arr"));
            out.push(b'[');
            ws(r, lay, out);
            for (i, c) in v.iter().enumerate() {
                if i > 0 {
                    out.push(b',');
                    ws(r, lay, out);
                }
                render_node(r, lay, c, d + 1, me as i64, out, flat);
                ws(r, lay, out);
            }
            out.push(b']');
        }
        Node::Obj(kv) => {
            flat.push(mk("obj"));
            out.push(b'{');
            ws(r, lay, out);
            for (i, (k, c)) in kv.iter().enumerate() {
                if i > 0 {
                    out.push(b',');
                    ws(r, lay, out);
                }
                let ks = out.len();
                render_string(r, lay, out, k);
                flat.push(Flat { t: "str", d: d + 1, p: me as i64, z: 1, s: ks, e: out.len(), cp: Some(k.clone()), lit: None });
                ws(r, lay, out);
                out.push(b':');
                ws(r, lay, out);
                render_node(r, lay, c, d + 1, me as i64, out, flat);
                ws(r, lay, out);
            }
            out.push(b'}');
        }
    }
    flat[me].e = out.len();
    flat[me].z = flat.len() - me;
}

pub fn render(r: &mut Rng, lay: &Layout, tree: &Node) -> Rendered {
    let mut text = vec![];
    let mut flat = vec![];
    ws(r, lay, &mut text);
    render_node(r, lay, tree, 0, -1, &mut text, &mut flat);
    ws(r, lay, &mut text);
    Rendered { text, flat }
}

// ---------------------------------------------------------------------------------------
// independent minimal JSON reader (cross-checks the renderer; shares no code with it)
// ---------------------------------------------------------------------------------------

pub struct Reader<'a> {
    t: &'a [u8],
    i: usize,
    pub flat: Vec<Flat>,
}

impl<'a> Reader<'a> {
    pub fn read(t: &'a [u8]) -> Result<Vec<Flat>, String> {
        let mut rd = Reader { t, i: 0, flat: vec![] };
        rd.skip();
        rd.value(0, -1)?;
        rd.skip();
        if rd.i != t.len() {
            return Err(format!("trailing bytes at {}", rd.i));
        }
        Ok(rd.flat)
    }
    fn skip(&mut self) {
        while self.i < self.t.len() && matches!(self.t[self.i], 0x20 | 0x09 | 0x0A | 0x0D) {
            self.i += 1;
        }
    }
    fn peek(&self) -> Result<u8, String> {
        self.t.get(self.i).copied().ok_or_else(|| "eof".to_string())
    }
    fn expect(&mut self, w: &[u8]) -> Result<(), String> {
        if self.t[self.i..].starts_with(w) {
            self.i += w.len();
            Ok(())
        } else {
            Err(format!("expected {:?} at {}", w, self.i))
        }
    }
    fn open(&mut self, t: &'static str, d: usize, p: i64) -> usize {
        self.flat.push(Flat { t, d, p, z: 0, s: self.i, e: 0, cp: None, lit: None });
        self.flat.len() - 1
    }
    fn close(&mut self, me: usize) {
        self.flat[me].e = self.i;
        self.flat[me].z = self.flat.len() - me;
    }
    fn value(&mut self, d: usize, p: i64) -> Result<(), String> {
        match self.peek()? {
            b'{' => {
                let me = self.open("obj", d, p);
                self.i += 1;
                self.skip();
                if self.peek()? != b'}' {
                    loop {
                        self.skip();
                        if self.peek()? != b'"' {
                            return Err("key expected".into());
                        }
                        self.string(d + 1, me as i64)?;
                        self.skip();
                        self.expect(b":")?;
                        self.skip();
                        self.value(d + 1, me as i64)?;
                        self.skip();
                        if self.peek()? == b',' {
                            self.i += 1;
                        } else {
                            break;
                        }
                    }
                }
                self.expect(b"}")?;
                self.close(me);
            }
            b'[' => {
                let me = self.open("arr", d, p);
                self.i += 1;
                self.skip();
                if self.peek()? != b']' {
                    loop {
                        self.skip();
                        self.value(d + 1, me as i64)?;
                        self.skip();
                        if self.peek()? == b',' {
                            self.i += 1;
                        } else {
                            break;
                        }
                    }
                }
                self.expect(b"]")?;
                self.close(me);
            }
            b'"' => self.string(d, p)?,
            b't' => {
                let me = self.open("true", d, p);
                self.expect(b"true")?;
                self.close(me);
            }
            b'f' => {
                let me = self.open("false", d, p);
                self.expect(b"false")?;
                self.close(me);
            }
            b'n' => {
                let me = self.open("null", d, p);
                self.expect(b"null")?;
                self.close(me);
            }
            b'-' | b'0'..=b'9' => {
                let me = self.open("num", d, p);
                let s = self.i;
                if self.peek()? == b'-' {
                    self.i += 1;
                }
                let digits = |rd: &mut Self| -> usize {
                    let s = rd.i;
                    while rd.i < rd.t.len() && rd.t[rd.i].is_ascii_digit() {
                        rd.i += 1;
                    }
                    rd.i - s
                };
                if self.peek()? == b'0' {
                    self.i += 1;
                } else if digits(self) == 0 {
                    return Err("digit expected".into());
                }
                if self.i < self.t.len() && self.t[self.i] == b'.' {
                    self.i += 1;
                    if digits(self) == 0 {
                        return Err("fraction digit expected".into());
                    }
                }
                if self.i < self.t.len() && (self.t[self.i] | 0x20) == b'e' {
                    self.i += 1;
                    if self.i < self.t.len() && (self.t[self.i] == b'+' || self.t[self.i] == b'-') {
                        self.i += 1;
                    }
                    if digits(self) == 0 {
                        return Err("exponent digit expected".into());
                    }
                }
                self.flat[me].lit = Some(String::from_utf8(self.t[s..self.i].to_vec()).unwrap());
                self.close(me);
            }
            c => return Err(format!("unexpected byte {c:#x} at {}", self.i)),
        }
        Ok(())
    }
    fn hex4(&mut self) -> Result<u32, String> {
        if self.i + 4 > self.t.len() {
            return Err("short \\u".into());
        }
        let mut v = 0u32;
        for k in 0..4 {
            let c = self.t[self.i + k] as char;
            v = v * 16 + c.to_digit(16).ok_or("bad hex")?;
        }
        self.i += 4;
        Ok(v)
    }
    fn string(&mut self, d: usize, p: i64) -> Result<(), String> {
        let me = self.open("str", d, p);
        self.i += 1;
        let mut cps: Vec<u32> = vec![];
        loop {
            let c = self.peek()?;
            match c {
                b'"' => {
                    self.i += 1;
                    break;
                }
                b'\\' => {
                    self.i += 1;
                    let e = self.peek()?;
                    self.i += 1;
                    match e {
                        b'"' => cps.push(0x22),
                        b'\\' => cps.push(0x5C),
                        b'/' => cps.push(0x2F),
                        b'b' => cps.push(8),
                        b'f' => cps.push(12),
                        b'n' => cps.push(10),
                        b'r' => cps.push(13),
                        b't' => cps.push(9),
                        b'u' => {
                            let hi = self.hex4()?;
                            if (0xD800..0xDC00).contains(&hi) {
                                self.expect(b"\\u")?;
                                let lo = self.hex4()?;
                                if !(0xDC00..0xE000).contains(&lo) {
                                    return Err("bad low surrogate".into());
                                }
                                cps.push(0x10000 + ((hi - 0xD800) << 10) + (lo - 0xDC00));
                            } else if (0xDC00..0xE000).contains(&hi) {
                                return Err("lone low surrogate".into());
                            } else {
                                cps.push(hi);
                            }
                        }
                        _ => return Err("bad escape".into()),
                    }
                }
                0..=0x1F => return Err("control in string".into()),
                _ => {
                    // one UTF-8 sequence, decoded by hand
                    let (n, init) = if c < 0x80 {
                        (1, c as u32)
                    } else if c >> 5 == 0b110 {
                        (2, (c & 0x1F) as u32)
                    } else if c >> 4 == 0b1110 {
                        (3, (c & 0x0F) as u32)
                    } else if c >> 3 == 0b11110 {
                        (4, (c & 0x07) as u32)
                    } else {
                        return Err("bad utf8 lead".into());
                    };
                    let mut v = init;
                    for k in 1..n {
                        let b = *self.t.get(self.i + k).ok_or("short utf8")?;
                        if b >> 6 != 0b10 {
                            return Err("bad continuation".into());
                        }
                        v = (v << 6) | (b & 0x3F) as u32;
                    }
                    self.i += n;
                    cps.push(v);
                }
            }
        }
        self.flat[me].cp = Some(cps);
        self.close(me);
        Ok(())
    }
}

// ---------------------------------------------------------------------------------------
// nested tree with spans (what the small build events carry as `tree`)
// ---------------------------------------------------------------------------------------

pub fn nested_json(flat: &[Flat], n: usize) -> Value {
    let f = &flat[n];
    let mut kids = vec![];
    let mut c = n + 1;
    while c < n + f.z {
        kids.push(c);
        c += flat[c].z;
    }
    match f.t {
        "arr" => json!({"t":"arr","s":f.s,"e":f.e,"v": kids.iter().map(|&k| nested_json(flat, k)).collect::<Vec<_>>()}),
        "obj" => {
            let kv: Vec<Value> = kids.chunks(2).map(|c| json!([nested_json(flat, c[0]), nested_json(flat, c[1])])).collect();
            json!({"t":"obj","s":f.s,"e":f.e,"kv":kv})
        }
        "str" => json!({"t":"str","s":f.s,"e":f.e,"cp":f.cp.clone().unwrap()}),
        "num" => json!({"t":"num","s":f.s,"e":f.e,"lit":f.lit.clone().unwrap(),"atom":atom_of(f.lit.as_ref().unwrap())}),
        t => json!({"t":t,"s":f.s,"e":f.e}),
    }
}

/// The nested tree derived DIRECTLY from the generator's `Node` (not from the flat list), with
/// spans taken positionally; TLC checks Preorder(tree) = nodes, so the flattening is validated.
pub fn nested_from_node(n: &Node, flat: &[Flat], next: &mut usize) -> Value {
    let f = &flat[*next];
    *next += 1;
    match n {
        Node::True => json!({"t":"true","s":f.s,"e":f.e}),
        Node::False => json!({"t":"false","s":f.s,"e":f.e}),
        Node::Null => json!({"t":"null","s":f.s,"e":f.e}),
        Node::Num(l) => json!({"t":"num","s":f.s,"e":f.e,"lit":l,"atom":atom_of(l)}),
        Node::Str(cp) => json!({"t":"str","s":f.s,"e":f.e,"cp":cp}),
        Node::Arr(v) => {
            let vs: Vec<Value> = v.iter().map(|c| nested_from_node(c, flat, next)).collect();
            json!({"t":"arr","s":f.s,"e":f.e,"v":vs})
        }
        Node::Obj(kv) => {
            let mut out = vec![];
            for (k, c) in kv {
                let kf = &flat[*next];
                *next += 1;
                let kn = json!({"t":"str","s":kf.s,"e":kf.e,"cp":k});
                out.push(json!([kn, nested_from_node(c, flat, next)]));
            }
            json!({"t":"obj","s":f.s,"e":f.e,"kv":out})
        }
    }
}

// ---------------------------------------------------------------------------------------
// document families
// ---------------------------------------------------------------------------------------

pub struct Doc {
    pub family: &'static str,
    pub tree: Node,
    pub text: Vec<u8>,
    pub flat: Vec<Flat>,
}

pub const FAMILIES: [&str; 12] = [
    "small", "medium", "deep", "escapes", "numbers", "whitespace", "dupkeys", "empties", "scalar", "longstr",
    "wide", "large",
];

fn str_node(s: &str) -> Node {
    Node::Str(s.chars().map(|c| c as u32).collect())
}

/// Build one document of the given family.  `large_bytes` bounds the "large" family.
/// Returns None when the independent reader disagrees with the renderer (counted, never
/// reported: the case is simply not used).
pub fn gen_doc(r: &mut Rng, family: &'static str, large_bytes: usize) -> Option<Doc> {
    let mut lay = Layout { ws_mode: r.below(3) as u8, esc_mode: r.below(2) as u8 };
    let tree = match family {
        "small" => {
            let mut b = r.range(1, 9) as usize;
            gen_tree(r, &GenParams { max_depth: 4, budget: 0, max_str: 5, max_width: 4 }, 0, &mut b)
        }
        "medium" => {
            let mut b = r.range(10, 300) as usize;
            gen_tree(r, &GenParams { max_depth: 8, budget: 0, max_str: 24, max_width: 9 }, 0, &mut b)
        }
        "deep" => {
            let dd = *r.pick(&[64usize, 127, 128, 129, 200, 300]);
            gen_deep(r, dd)
        }
        "escapes" => {
            lay.esc_mode = 1;
            let n = r.range(1, 12);
            let mut v = vec![];
            for _ in 0..n {
                let s = gen_string(r, 40);
                if r.coin() {
                    v.push(Node::Str(s));
                } else {
                    v.push(Node::Obj(vec![(s.clone(), Node::Str(gen_string(r, 10))), (s, Node::Null)]));
                }
            }
            // strings that END in an astral character / an escape (surrogate-pair tail guard)
            v.push(Node::Str(vec![0x41, 0x1F600]));
            v.push(Node::Str(vec![0x10000]));
            v.push(Node::Str(vec![0x5C]));
            v.push(Node::Str(vec![0x22, 0x22]));
            Node::Arr(v)
        }
        "numbers" => {
            let mut v: Vec<Node> = ["0", "-0", "1", "-1", "10", "0.5", "-0.0", "1e5", "1E5", "1e+5", "1E-5", "1.25e10",
                "-1.5E-3", "0e0", "123456789012345678901234567890", "1e400", "-1e400", "0.000000000000000000001",
                "4.9e-324", "1.7976931348623157e308", "9007199254740993", "2.5", "100e-2"]
                .iter().map(|s| Node::Num(s.to_string())).collect();
            for _ in 0..r.range(3, 30) {
                v.push(Node::Num(gen_number(r)));
            }
            r.shuffle(&mut v);
            if r.coin() {
                Node::Arr(v)
            } else {
                Node::Obj(v.into_iter().map(|n| (gen_key(r), n)).collect())
            }
        }
        "whitespace" => {
            lay.ws_mode = 2;
            let mut b = r.range(3, 60) as usize;
            gen_tree(r, &GenParams { max_depth: 6, budget: 0, max_str: 8, max_width: 5 }, 0, &mut b)
        }
        "dupkeys" => {
            let n = r.range(2, 10);
            let mut kv = vec![];
            for _ in 0..n {
                let k: Vec<u32> = r.pick(&KEYS).chars().map(|c| c as u32).collect();
                let mut b = r.range(1, 5) as usize;
                kv.push((k, gen_tree(r, &GenParams { max_depth: 2, budget: 0, max_str: 4, max_width: 3 }, 0, &mut b)));
            }
            if r.coin() {
                // same key spelled with and without escapes
                kv.push((vec![0x61], str_node("last-a")));
            }
            Node::Obj(kv)
        }
        "empties" => {
            let picks = [
                Node::Arr(vec![]), Node::Obj(vec![]), Node::Arr(vec![Node::Arr(vec![])]), Node::Arr(vec![Node::Obj(vec![])]),
                Node::Obj(vec![(vec![0x61], Node::Obj(vec![]))]), Node::Obj(vec![(vec![], Node::Arr(vec![]))]),
                Node::Str(vec![]),
            ];
            let n = r.range(0, 6);
            let v: Vec<Node> = (0..n).map(|_| r.pick(&picks).clone()).collect();
            match r.below(3) {
                0 => Node::Arr(v),
                1 => Node::Obj(v.into_iter().map(|n| (gen_key(r), n)).collect()),
                _ => r.pick(&picks).clone(),
            }
        }
        "usweep-u" | "usweep-lit" => {
            // every BMP scalar value (and a sample of every astral plane) once, 256 per string;
            // esc_mode 2 writes them all as \uXXXX, 3 writes them literally where JSON allows
            lay.esc_mode = if family == "usweep-u" { 2 } else { 3 };
            let mut v = vec![];
            let mut cur: Vec<u32> = vec![];
            for cp in 0u32..0x10000 {
                if (0xD800..=0xDFFF).contains(&cp) {
                    continue;
                }
                cur.push(cp);
                if cur.len() == 256 {
                    v.push(Node::Str(std::mem::take(&mut cur)));
                }
            }
            for plane in 1u32..=16 {
                cur.extend([plane << 16, (plane << 16) + 0xFFFF, (plane << 16) + 0x3FF, (plane << 16) + 0x400]);
                for _ in 0..12 {
                    cur.push((plane << 16) + r.below(0x10000) as u32);
                }
            }
            v.push(Node::Str(cur));
            Node::Arr(v)
        }
        "scalar" => match r.below(6) {
            0 => Node::True,
            1 => Node::False,
            2 => Node::Null,
            3 => Node::Num(gen_number(r)),
            _ => Node::Str(gen_string(r, 30)),
        },
        "longstr" => {
            // sparse interest bits: long strings between few structural bytes
            let n = r.range(1, 5);
            let mut v = vec![];
            for _ in 0..n {
                let len = *r.pick(&[60usize, 64, 130, 700, 3000]);
                let s: Vec<u32> = (0..len).map(|_| gen_cp(r)).collect();
                v.push(Node::Str(s));
                if r.coin() {
                    v.push(Node::Num(gen_number(r)));
                }
            }
            Node::Arr(v)
        }
        "wide" => {
            let n = r.range(50, 400);
            let v: Vec<Node> = (0..n).map(|_| gen_leaf(r, &GenParams { max_depth: 0, budget: 0, max_str: 6, max_width: 0 })).collect();
            if r.coin() {
                Node::Arr(v)
            } else {
                Node::Obj(v.into_iter().map(|n| (gen_key(r), n)).collect())
            }
        }
        _ => {
            // "large": records of mixed fields until the byte target is met (estimated)
            let mut recs = vec![];
            let mut est = 0usize;
            while est < large_bytes {
                let mut b = r.range(5, 40) as usize;
                let before = b;
                let t = gen_tree(r, &GenParams { max_depth: 5, budget: 0, max_str: 200, max_width: 8 }, 0, &mut b);
                est += (before - b) * 60 + 20;
                recs.push(t);
            }
            lay.ws_mode = r.below(2) as u8;
            Node::Arr(recs)
        }
    };
    let Rendered { text, flat } = render(r, &lay, &tree);
    // cross-check by the independent reader
    match Reader::read(&text) {
        Ok(f2) if f2 == flat => {}
        _ => return None,
    }
    // every string leaf must also be what Rust's own UTF-8 decoding says (reader sanity)
    if std::str::from_utf8(&text).is_err() {
        return None;
    }
    Some(Doc { family, tree, text, flat })
}

pub fn build_event(doc: &Doc, id: usize, variant: &str, with_tree_max: usize) -> Value {
    let nodes: Vec<Value> = doc.flat.iter().map(|f| f.to_json()).collect();
    let mut m = serde_json::Map::new();
    m.insert("e".into(), json!("build"));
    m.insert("doc".into(), json!(id));
    m.insert("family".into(), json!(doc.family));
    m.insert("variant".into(), json!(variant));
    m.insert("len".into(), json!(doc.text.len()));
    m.insert("r".into(), json!(doc.flat.len()));
    if doc.flat.len() <= with_tree_max {
        let mut next = 0;
        m.insert("tree".into(), nested_from_node(&doc.tree, &doc.flat, &mut next));
    }
    m.insert("nodes".into(), Value::Array(nodes));
    Value::Object(m)
}

// ---------------------------------------------------------------------------------------
// walking the real index (generic over the storage type so rebuilt indexes reuse it)
// ---------------------------------------------------------------------------------------

pub const PANIC: i64 = -2;
pub const BAD_CURSOR: i64 = -3;

/// Cursor identity = preorder number = number of opens before its BP position.
pub fn cid<W: AsRef<[u64]>>(c: &JsonCursor<'_, W>) -> i64 {
    guarded(|| {
        let bp = c.index().bp();
        let p = c.bp_position();
        if bp.is_open(p) {
            bp.rank1(p) as i64
        } else {
            BAD_CURSOR
        }
    })
    .unwrap_or(PANIC)
}

pub fn ocid<W: AsRef<[u64]>>(c: &Option<JsonCursor<'_, W>>) -> i64 {
    match c {
        None => -1,
        Some(c) => cid(c),
    }
}

pub fn kind_code<W>(v: &StandardJson<'_, W>) -> i64 {
    match v {
        StandardJson::Null => 0,
        StandardJson::Bool(false) => 1,
        StandardJson::Bool(true) => 2,
        StandardJson::Number(_) => 3,
        StandardJson::String(_) => 4,
        StandardJson::Array(_) => 5,
        StandardJson::Object(_) => 6,
        StandardJson::Error(_) => 7,
    }
}

fn off(text: &[u8], sub: &[u8]) -> i64 {
    (sub.as_ptr() as usize - text.as_ptr() as usize) as i64
}

/// Where a value (which carries no cursor) starts in the text, when the API lets us see it:
/// strings and numbers through their raw bytes, non-empty containers through the parent of
/// their first child; -1 otherwise.
pub fn value_start<W: AsRef<[u64]>>(text: &[u8], v: &StandardJson<'_, W>) -> i64 {
    match v {
        StandardJson::String(s) => off(text, s.raw_bytes()),
        StandardJson::Number(n) => off(text, n.raw_bytes()),
        StandardJson::Array(el) => match el.uncons_cursor() {
            Some((c, _)) => c.parent().and_then(|p| p.text_position()).map(|x| x as i64).unwrap_or(-4),
            None => -1,
        },
        StandardJson::Object(fs) => match fs.uncons() {
            Some((f, _)) => f.key_cursor().parent().and_then(|p| p.text_position()).map(|x| x as i64).unwrap_or(-4),
            None => -1,
        },
        _ => -1,
    }
}

pub struct Walker<'a, 't, W: AsRef<[u64]>> {
    pub tr: &'t mut Trace,
    pub idx: &'a JsonIndex<W>,
    pub text: &'a [u8],
    pub flat: &'a [Flat],
    pub panicked: bool,
}

macro_rules! g {
    ($self:ident, $op:expr, $at:expr, $body:expr) => {
        match guarded(|| $body) {
            Ok(v) => v,
            Err(_) => {
                $self.tr.emit(json!({"e":"op","op":$op,"at":$at,"r":PANIC}));
                $self.panicked = true;
                return None;
            }
        }
    };
}

impl<'a, 't, W: AsRef<[u64]>> Walker<'a, 't, W> {
    fn mv(&mut self, op: &str, cur: JsonCursor<'a, W>) -> Option<Option<JsonCursor<'a, W>>> {
        let at = cid(&cur);
        let r = g!(self, op, at, match op {
            "first_child" => cur.first_child(),
            "next_sibling" => cur.next_sibling(),
            _ => cur.parent(),
        });
        let rid = g!(self, op, at, ocid(&r));
        self.tr.emit(json!({"e":"op","op":op,"at":at,"r":rid}));
        Some(r)
    }

    pub fn root(&mut self) -> Option<JsonCursor<'a, W>> {
        let idx = self.idx;
        let text = self.text;
        let c = g!(self, "root", -1, idx.root(text));
        let id = g!(self, "root", -1, cid(&c));
        self.tr.emit(json!({"e":"op","op":"root","at":-1,"r":id}));
        Some(c)
    }

    /// value / str / num / range observations at `cur`.
    pub fn observe(&mut self, cur: JsonCursor<'a, W>) -> Option<()> {
        let at = cid(&cur);
        let text = self.text;
        let v = g!(self, "value", at, cur.value());
        self.tr.emit(json!({"e":"op","op":"value","at":at,"r":kind_code(&v)}));
        match &v {
            StandardJson::String(s) => {
                let dec = g!(self, "str", at, s.as_str().ok().map(|c| c.chars().map(|ch| ch as u32).collect::<Vec<u32>>()));
                let raw = g!(self, "str", at, off(text, s.raw_bytes()));
                match dec {
                    Some(cp) => self.tr.emit(json!({"e":"op","op":"str","at":at,"r":cp.len(),"cp":cp,"s":raw})),
                    None => self.tr.emit(json!({"e":"op","op":"str","at":at,"r":-1,"cp":[],"s":raw})),
                }
            }
            StandardJson::Number(n) => {
                let lit = g!(self, "num", at, String::from_utf8_lossy(n.raw_bytes()).to_string());
                let f = g!(self, "num", at, n.as_f64().ok());
                let want = lit.parse::<f64>().ok();
                let ok = match (f, want) {
                    (Some(a), Some(b)) => a.to_bits() == b.to_bits(),
                    _ => false,
                };
                let atom = f.map(|x| format!("{:016x}", x.to_bits())).unwrap_or_else(|| "error".into());
                self.tr.emit(json!({"e":"op","op":"num","at":at,"r":i32::from(ok),"lit":lit,"atom":atom}));
            }
            _ => {}
        }
        let rg = g!(self, "range", at, cur.text_range());
        let rb = g!(self, "range", at, cur.raw_bytes());
        match rg {
            Some((s, e)) => {
                let same = match rb {
                    Some(b) => e <= text.len() && s <= e && off(text, b) == s as i64 && b.len() == e - s,
                    None => false,
                };
                self.tr.emit(json!({"e":"op","op":"range","at":at,"s":s,"r":e,"rb":i32::from(same)}));
            }
            None => self.tr.emit(json!({"e":"op","op":"range","at":at,"s":-1,"r":-1,"rb":i32::from(rb.is_none())})),
        }
        Some(())
    }

    /// children / fields / elements / get / find observations at a container.
    pub fn observe_container(&mut self, cur: JsonCursor<'a, W>, r: &mut Rng, nfind: usize) -> Option<()> {
        let at = cid(&cur);
        let text = self.text;
        let ch: Vec<i64> = g!(self, "children", at, cur.children().map(|c| cid(&c)).collect());
        let isc = g!(self, "children", at, cur.is_container());
        self.tr.emit(json!({"e":"op","op":"children","at":at,"r":ch.len(),"ch":ch,"isc":i32::from(isc)}));
        let v = g!(self, "value", at, cur.value());
        match v {
            StandardJson::Object(fields) => {
                // uncons chain
                let kv = g!(self, "fields", at, {
                    let mut out: Vec<[i64; 4]> = vec![];
                    let mut f = fields;
                    while let Some((fld, rest)) = f.uncons() {
                        out.push([cid(&fld.key_cursor()), cid(&fld.value_cursor()), kind_code(&fld.key()), kind_code(&fld.value())]);
                        f = rest;
                    }
                    (out, f.is_empty())
                });
                let pairs: Vec<[i64; 2]> = kv.0.iter().map(|x| [x[0], x[1]]).collect();
                let kinds: Vec<[i64; 2]> = kv.0.iter().map(|x| [x[2], x[3]]).collect();
                self.tr.emit(json!({"e":"op","op":"fields","via":"uncons","at":at,"r":pairs.len(),"kv":pairs,"kinds":kinds,
                                    "empty":i32::from(fields.is_empty()),"end_empty":i32::from(kv.1)}));
                // Iterator impl
                let it: Vec<[i64; 2]> = g!(self, "fields", at, fields.map(|f| [cid(&f.key_cursor()), cid(&f.value_cursor())]).collect());
                self.tr.emit(json!({"e":"op","op":"fields","via":"iter","at":at,"r":it.len(),"kv":it,"kinds":kinds,
                                    "empty":i32::from(fields.is_empty()),"end_empty":1}));
                // find: names taken from the generator's listing (every distinct key, capped), an
                // absent name, and the empty name
                let me = at as usize;
                let mut names: Vec<Vec<u32>> = vec![];
                if me < self.flat.len() {
                    let mut c = me + 1;
                    let mut is_key = true;
                    while c < me + self.flat[me].z {
                        if is_key {
                            let k = self.flat[c].cp.clone().unwrap_or_default();
                            if !names.contains(&k) {
                                names.push(k);
                            }
                        }
                        is_key = !is_key;
                        c += self.flat[c].z;
                    }
                }
                r.shuffle(&mut names);
                names.truncate(nfind);
                names.push("zz-absent".chars().map(|c| c as u32).collect());
                if r.chance(1, 4) {
                    names.push(vec![]);
                }
                for name in names {
                    let s: String = name.iter().map(|&c| char::from_u32(c).unwrap()).collect();
                    let fc = g!(self, "find", at, fields.find_cursor(&s));
                    let fv = g!(self, "find", at, fields.find(&s));
                    let (k, st) = match &fv {
                        Some(v) => (kind_code(v), g!(self, "find", at, value_start(text, v))),
                        None => (-1, -1),
                    };
                    self.tr.emit(json!({"e":"op","op":"find","at":at,"name":name,"r":ocid(&fc),"k":k,"s":st}));
                }
            }
            StandardJson::Array(elements) => {
                let ec = g!(self, "elements", at, {
                    let mut ids: Vec<i64> = vec![];
                    let mut e = elements;
                    while let Some((c, rest)) = e.uncons_cursor() {
                        ids.push(cid(&c));
                        e = rest;
                    }
                    (ids, e.is_empty())
                });
                let kinds: Vec<i64> = g!(self, "elements", at, {
                    let mut ks = vec![];
                    let mut e = elements;
                    while let Some((v, rest)) = e.uncons() {
                        ks.push(kind_code(&v));
                        e = rest;
                    }
                    ks
                });
                self.tr.emit(json!({"e":"op","op":"elements","via":"uncons","at":at,"r":ec.0.len(),"ch":ec.0,"kinds":kinds,
                                    "empty":i32::from(elements.is_empty()),"end_empty":i32::from(ec.1)}));
                let it_ids: Vec<i64> = g!(self, "elements", at, elements.cursor_iter().map(|c| cid(&c)).collect());
                let it_kinds: Vec<i64> = g!(self, "elements", at, elements.map(|v| kind_code(&v)).collect());
                self.tr.emit(json!({"e":"op","op":"elements","via":"iter","at":at,"r":it_ids.len(),"ch":it_ids,"kinds":it_kinds,
                                    "empty":i32::from(elements.is_empty()),"end_empty":1}));
                let n = ec.0.len() as u64;
                let mut is: Vec<u64> = vec![0, n, if r.coin() { n + 1 } else { 1 << 32 }];
                if r.chance(1, 8) {
                    is.push(u64::MAX);
                }
                if n > 0 {
                    is.push(n - 1);
                    is.push(r.below(n));
                }
                is.sort_unstable();
                is.dedup();
                for i in is {
                    for fast in [0, 1] {
                        // huge indexes only through get_fast/get on short arrays (both are O(min(i, n)))
                        let v = g!(self, "get", at, if fast == 1 { elements.get_fast(i as usize) } else { elements.get(i as usize) });
                        let (k, st) = match &v {
                            Some(v) => (kind_code(v), g!(self, "get", at, value_start(text, v))),
                            None => (-1, -1),
                        };
                        self.tr.emit(json!({"e":"op","op":"get","at":at,"i":clamp_i(i),"fast":fast,"r":k,"s":st}));
                    }
                }
            }
            _ => {}
        }
        Some(())
    }

    /// Full depth-first traversal using only cursor moves; observes every node on first visit.
    /// `container_every`: observe containers' listings for every k-th container (1 = all).
    pub fn dfs(&mut self, r: &mut Rng, nfind: usize, container_every: usize) -> Option<()> {
        let mut cur = self.root()?;
        let mut nc = 0usize;
        loop {
            self.observe(cur)?;
            let isc = self.flat.get(cid(&cur) as usize).map(|f| f.t == "arr" || f.t == "obj").unwrap_or(true);
            if isc {
                nc += 1;
                if nc % container_every == 0 || nc <= 3 {
                    self.observe_container(cur, r, nfind)?;
                }
            }
            if let Some(c) = self.mv("first_child", cur)? {
                cur = c;
                continue;
            }
            loop {
                if let Some(s) = self.mv("next_sibling", cur)? {
                    cur = s;
                    break;
                }
                match self.mv("parent", cur)? {
                    Some(p) => cur = p,
                    None => return Some(()),
                }
            }
        }
    }

    /// Seeded random walk of `steps` actions.
    pub fn random_walk(&mut self, r: &mut Rng, steps: usize) -> Option<()> {
        let mut cur = self.root()?;
        for _ in 0..steps {
            match r.below(20) {
                0 => cur = self.root()?,
                1..=6 => {
                    if let Some(c) = self.mv("first_child", cur)? {
                        cur = c;
                    }
                }
                7..=12 => {
                    if let Some(c) = self.mv("next_sibling", cur)? {
                        cur = c;
                    }
                }
                13..=16 => {
                    if let Some(c) = self.mv("parent", cur)? {
                        cur = c;
                    }
                }
                17 => {
                    // a cursor rebuilt from its BP position is the same cursor
                    let c2 = JsonCursor::from_bp_position(self.idx, self.text, cur.bp_position());
                    self.observe(c2)?;
                }
                18 => self.observe_container(cur, r, 2)?,
                _ => self.observe(cur)?,
            }
        }
        Some(())
    }
}
