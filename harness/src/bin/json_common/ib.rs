//! C07 query generator shared by c07 (original indexes) and c31 (indexes rebuilt from
//! serialized parts): drives ib_rank1 / ib_select1 / ib_select1_from / text_position /
//! cursor_at_offset / cursor_at_position and logs one event per call (Trace_IbIndex.tla).
use super::*;
use succinctly::json::light::{JsonCursor, JsonIndex};

pub fn ones_of(words: &[u64]) -> Vec<u64> {
    let mut v = vec![];
    for (i, &w) in words.iter().enumerate() {
        let mut x = w;
        while x != 0 {
            v.push(i as u64 * 64 + x.trailing_zeros() as u64);
            x &= x - 1;
        }
    }
    v
}

/// Line starts by a plain scan (LF, CRLF, lone CR; a break at the very end starts no line).
pub fn line_starts(t: &[u8]) -> Vec<usize> {
    let mut v = vec![0usize];
    let mut i = 0;
    while i < t.len() {
        let w = if t[i] == b'\r' && i + 1 < t.len() && t[i + 1] == b'\n' {
            2
        } else if t[i] == b'\r' || t[i] == b'\n' {
            1
        } else {
            0
        };
        if w == 0 {
            i += 1;
        } else {
            i += w;
            if i < t.len() {
                v.push(i);
            }
        }
    }
    v
}

pub struct Q<'t> {
    pub tr: &'t mut Trace,
    /// also probe k >= 2^32 (C07's u32-truncation finding); off when another property reuses the queries
    pub wrap: bool,
}

pub fn res(r: Result<Option<usize>, String>) -> i64 {
    match r {
        Err(_) => -2,
        Ok(None) => -1,
        Ok(Some(v)) => v as i64,
    }
}

#[allow(clippy::too_many_arguments)]
pub fn queries<W: AsRef<[u64]>>(q: &mut Q, r: &mut Rng, idx: &JsonIndex<W>, text: &[u8], ones: &[u64], ls: &[usize],
                            strays: bool, nodes_ok: bool, full: bool) {
    let len = idx.ib_len() as u64;
    let nw = idx.ib().len() as u64;
    let tlen = text.len() as u64;
    let small = full && len <= 260;
    // ---------------- rank
    let mut ps: Vec<u64> = vec![0, 1, len, if len > 0 { len - 1 } else { 0 }];
    if !strays {
        ps.extend([len + 1, len + 63, len + 64, len + 65, nw * 64, nw * 64 + 1, 1 << 31, 1 << 40, u64::MAX]);
    }
    if small {
        ps.extend(0..=len);
    } else {
        for _ in 0..40 {
            let w = r.below(nw + 1) * 64;
            ps.extend([w, w + 1, w.saturating_sub(1)]);
            if !ones.is_empty() {
                let o = *r.pick(ones);
                ps.extend([o, o + 1, o.saturating_sub(1)]);
            }
            ps.push(r.below(len + 1));
        }
    }
    if strays {
        ps.retain(|&p| p <= len);
    }
    ps.sort_unstable();
    ps.dedup();
    for &p in &ps {
        let v = guarded(|| idx.ib_rank1(p as usize));
        q.tr.emit(json!({"e":"q","op":"rank","a":clamp_i(p),"r": v.map(|x| x as i64).unwrap_or(-2)}));
    }
    // ---------------- select / select_from
    let n1 = ones.len() as u64;
    let mut ks: Vec<u64> = vec![0, 1, n1, n1 + 1, n1.saturating_sub(1), u64::MAX, (1 << 32) - 1, 1 << 31, 1 << 32, (1 << 32) + 1];
    if small {
        ks.extend(0..=n1 + 1);
    } else {
        for _ in 0..30 {
            ks.push(r.below(n1 + 1));
        }
    }
    if !q.wrap {
        ks.retain(|&k| k < (1 << 32) || k == u64::MAX);
    }
    ks.sort_unstable();
    ks.dedup();
    for &k in &ks {
        let v = guarded(|| idx.ib_select1(k as usize));
        q.tr.emit(json!({"e":"q","op":"select","a":clamp_i(k),"w32":i32::from(k >= 1 << 32),"r":res(v)}));
    }
    for &k in &ks {
        let mut hs: Vec<u64> = vec![];
        if small || nw <= 6 {
            hs.extend(0..=nw + 10);
        } else {
            hs.extend([0, 1, 2, nw - 1, nw, nw + 1, nw + 10, nw / 2, u64::MAX, 1 << 40]);
            // around the answer word
            let aw = if k < n1 { ones[k as usize] / 64 } else { nw };
            for d in [0u64, 1, 2, 3, 4, 5, 7, 8, 9, 15, 16, 17, 31, 33, 64, 100] {
                hs.push(aw + d);
                hs.push(aw.saturating_sub(d));
            }
            for _ in 0..4 {
                hs.push(r.below(nw + 11));
            }
            hs.sort_unstable();
            hs.dedup();
        }
        if r.chance(1, 10) {
            hs.push(u64::MAX);
        }
        for &h in &hs {
            let v = guarded(|| idx.ib_select1_from(k as usize, h as usize));
            q.tr.emit(json!({"e":"q","op":"select_from","a":clamp_i(k),"w32":i32::from(k >= 1 << 32),"h":clamp_i(h),"r":res(v)}));
        }
    }
    if strays {
        return;
    }
    // ---------------- text_position of cursors placed on opens of the BP
    let bp = idx.bp();
    let mut opens: Vec<usize> = vec![];
    {
        let bl = bp.len();
        for (i, &w) in bp.words().iter().enumerate() {
            let mut x = w;
            while x != 0 {
                let p = i * 64 + x.trailing_zeros() as usize;
                if p < bl {
                    opens.push(p);
                }
                x &= x - 1;
            }
        }
    }
    let pick_opens: Vec<usize> = if small || opens.len() <= 300 {
        opens.clone()
    } else {
        let mut v: Vec<usize> = (0..200).map(|_| *r.pick(&opens)).collect();
        v.extend([opens[0], opens[opens.len() - 1]]);
        v
    };
    for &p in &pick_opens {
        let c = JsonCursor::from_bp_position(idx, text, p);
        let id = cid(&c);
        let v = guarded(|| c.text_position());
        q.tr.emit(json!({"e":"q","op":"text_position","a":id,"r":res(v)}));
    }
    // ---------------- offset -> node, line/column -> node
    if !nodes_ok {
        return; // an open parenthesis was cut off by bp_len = 2 * opens (more closes than opens): no such node
    }
    let root = idx.root(text);
    let mut os: Vec<u64> = vec![0, 1, tlen, tlen + 1, tlen.saturating_sub(1), 1 << 31, u64::MAX];
    if small {
        os.extend(0..=tlen + 1);
    } else {
        for _ in 0..60 {
            if !ones.is_empty() {
                let o = *r.pick(ones);
                os.extend([o, o + 1, o.saturating_sub(1)]);
            }
            let w = r.below(nw + 1) * 64;
            os.extend([w, w + 1, w.saturating_sub(1)]);
            os.push(r.below(tlen + 1));
        }
    }
    os.sort_unstable();
    os.dedup();
    for &o in &os {
        let v = guarded(|| root.cursor_at_offset(o as usize).map(|c| cid(&c)));
        let rr = match v {
            Err(_) => -2,
            Ok(None) => -1,
            Ok(Some(id)) => id,
        };
        q.tr.emit(json!({"e":"q","op":"cao","a":clamp_i(o),"r":rr}));
    }
    let cap = |q: &mut Q, a: i64, l: u64, c: u64| {
        let v = guarded(|| root.cursor_at_position(l as usize, c as usize).map(|c| cid(&c)));
        let rr = match v {
            Err(_) => -2,
            Ok(None) => -1,
            Ok(Some(id)) => id,
        };
        q.tr.emit(json!({"e":"q","op":"cap","a":a,"l":clamp_i(l),"c":clamp_i(c),"r":rr}));
    };
    for &o in &os {
        if o < tlen {
            // the equivalent line/column pair, from the harness's own line table
            let li = ls.partition_point(|&s| s as u64 <= o);
            let l = li as u64;
            let c = o - ls[li - 1] as u64 + 1;
            cap(q, o as i64, l, c);
        }
    }
    let nl = ls.len() as u64;
    for (l, c) in [(0u64, 1u64), (1, 0), (nl + 1, 1), (nl, 1), (1, tlen + 1), (1, tlen), (nl, tlen + 5), (u64::MAX, 1), (1, 1 << 40), (1, 1)] {
        cap(q, -1, l, c);
    }
    for _ in 0..6 {
        // columns running past their line (land on later lines or past the end)
        let l = r.range(1, nl);
        let c = r.range(1, tlen + 3);
        cap(q, -1, l, c);
    }
}

#[allow(clippy::too_many_arguments)]
pub fn build_ev<W: AsRef<[u64]>>(idx: &JsonIndex<W>, kind: &str, variant: &str, text: &[u8], starts: Option<Vec<usize>>,
                             ones: &[u64], ls: &[usize], nodes_ok: bool, strays: bool) -> Value {
    let mut m = serde_json::Map::new();
    m.insert("e".into(), json!("build"));
    m.insert("kind".into(), json!(kind));
    m.insert("variant".into(), json!(variant));
    m.insert("len".into(), json!(idx.ib_len()));
    m.insert("tlen".into(), json!(text.len()));
    m.insert("words".into(), json!(idx.ib().len()));
    m.insert("r".into(), json!(ones.len()));
    m.insert("nodes_ok".into(), json!(i32::from(nodes_ok)));
    m.insert("strays".into(), json!(i32::from(strays)));
    m.insert("ones".into(), json!(ones));
    m.insert("ls".into(), json!(ls));
    if text.len() <= 300 {
        m.insert("bytes".into(), json!(text));
    }
    if let Some(s) = starts {
        m.insert("starts".into(), json!(s));
    }
    Value::Object(m)
}

