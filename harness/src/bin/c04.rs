//! C04 — balanced-parentheses navigation: record traces of the real
//! `succinctly::trees::BalancedParens` (all six constructions), of the free functions
//! `find_close` / `find_open` / `enclose` and of the in-word kernels.
//!
//! usage: c04 record <out.ndjson> seed=N vectors=N cfg=<name> [maxbits=N] [npos=N] [kwords=N]
//!
//! Events (validated by spec/Trace_BP.tla):
//!   {"e":"build","cfg":..,"st":"o|b","sel":"n|s|c","rate":R,"rl":[[bit,n]..],"len":L,
//!    "nw":words,"sw":surplus whole words,"sw1":1-bits past len when sw > 0,"rlen":len()|-2}
//!   {"e":"q","op":<op>,"a":arg,"r":result}       methods of the last built BalancedParens
//!        ops: find_close find_open enclose parent first_child next_sibling excess depth
//!             subtree_size rank1 rank0 is_open is_close select1 select0 total_ones total_zeros
//!        and the free functions on the caller's storage: f_find_close f_find_open f_enclose
//!   {"e":"w","op":"fuc|fciw","rl":[[bit,n]..] (64 bits),"a":p,"r":result}   in-word kernels
//! Conventions: None = -1, panic = -2, argument >= 2^30 = -1.  `excess` is a signed value,
//!   so for that op alone -1/-2 are real answers and a panic is logged as 2^30-1.
//!   `excess` is recorded only for p < len; `depth` only for p >= len or excess(p) >= 0
//!   (DESIGN.md C04 Notes: compared only where defined); `select1` is not recorded for NoSelect
//!   (documented to return None always).
#![allow(deprecated)]
use succinctly::trees::{
    enclose, find_close, find_close_in_word, find_open, find_unmatched_close_in_word, BalancedParens, NoSelect,
    SelectSupport, WithCsPoppy, WithSelect,
};
use succinctly::Config;
use verif_harness::*;

const L1_BITS: u64 = 64 * 32;
const L2_BITS: u64 = 64 * 32 * 32;

/// Run-length builder (adjacent equal runs are merged).
#[derive(Clone, Default)]
struct Rl {
    runs: Vec<[u64; 2]>,
    total: u64,
    excess: i64,
}

impl Rl {
    fn push(&mut self, bit: u64, n: u64) {
        if n == 0 {
            return;
        }
        match self.runs.last_mut() {
            Some(l) if l[0] == bit => l[1] += n,
            _ => self.runs.push([bit, n]),
        }
        self.total += n;
        self.excess += if bit == 1 { n as i64 } else { -(n as i64) };
    }
    fn opens(&mut self, n: u64) {
        self.push(1, n)
    }
    fn closes(&mut self, n: u64) {
        self.push(0, n)
    }
    fn nest(&mut self, k: u64) {
        self.push(1, k);
        self.push(0, k);
    }
    fn pairs(&mut self, m: u64) {
        for _ in 0..m {
            self.push(1, 1);
            self.push(0, 1);
        }
    }
    fn words(&self) -> Vec<u64> {
        let mut words = vec![0u64; (self.total as usize).div_ceil(64)];
        let mut pos = 0usize;
        for r in &self.runs {
            let n = r[1] as usize;
            if r[0] == 1 {
                let mut p = pos;
                let end = pos + n;
                while p < end {
                    let w = p / 64;
                    let b = p % 64;
                    let take = (64 - b).min(end - p);
                    let mask = if take == 64 { u64::MAX } else { ((1u64 << take) - 1) << b };
                    words[w] |= mask;
                    p += take;
                }
            }
            pos += n;
        }
        words
    }
}

const NEAR: [u64; 34] = [
    1, 1, 2, 3, 5, 8, 13, 31, 32, 33, 62, 63, 64, 65, 66, 127, 128, 129, 511, 512, 513, 1023, 1024, 1025, 2047, 2048,
    2049, 4095, 4096, 4097, 32767, 32768, 65535, 65537,
];

fn near(r: &mut Rng, cap: u64) -> u64 {
    for _ in 0..8 {
        let v = *r.pick(&NEAR);
        let v = if r.chance(1, 6) { v + r.below(64) } else { v };
        if v <= cap {
            return v;
        }
    }
    1 + r.below(cap.clamp(1, 70))
}

/// Random composition of parts; sizes come from the boundary set.
fn gen_compose(r: &mut Rng, maxbits: u64) -> Rl {
    let mut s = Rl::default();
    let parts = r.range(1, 9);
    let per = (maxbits / parts).max(4);
    for _ in 0..parts {
        if s.total + 4 >= maxbits {
            break;
        }
        let room = (maxbits - s.total).min(per);
        match r.below(8) {
            0 | 1 => s.opens(near(r, room)),
            2 => {
                // closes: usually no more than the current excess, sometimes going negative
                let n = near(r, room);
                let n = if s.excess > 0 && r.chance(3, 4) { n.min(s.excess as u64) } else { n };
                s.closes(n)
            }
            3 => s.nest(near(r, room / 2)),
            4 => s.pairs(r.range(1, 40).min(room / 2).max(1)),
            5 => {
                // random bits
                let n = r.range(1, 200).min(room);
                for _ in 0..n {
                    let b = r.below(2);
                    s.push(b, 1);
                }
            }
            6 => {
                // random balanced walk staying non-negative relative to its start
                let n = r.range(1, 150).min(room / 2);
                let mut open = 0u64;
                let mut left = n;
                while left > 0 || open > 0 {
                    if left > 0 && (open == 0 || r.coin()) {
                        s.push(1, 1);
                        open += 1;
                        left -= 1;
                    } else {
                        s.push(0, 1);
                        open -= 1;
                    }
                }
            }
            _ => {
                // blocks of nests
                let k = near(r, (room / 4).max(1));
                let m = r.range(1, 5);
                for _ in 0..m {
                    if s.total + 2 * k < maxbits {
                        s.nest(k);
                    }
                }
            }
        }
    }
    // closer: balance, over-close, under-close or leave
    if s.excess > 0 {
        let e = s.excess as u64;
        match r.below(6) {
            0 | 1 | 2 => s.closes(e),
            3 => s.closes(e + r.range(1, 70)),
            4 => s.closes(e - r.range(0, e.min(70))),
            _ => {}
        }
    }
    s
}

/// open + blocks of nests + close, total exactly `target` bits (target even, >= 2)
fn gen_wrapped_blocks(r: &mut Rng, target: u64) -> Rl {
    let mut s = Rl::default();
    s.opens(1);
    let mut left = (target - 2) / 2;
    while left > 0 {
        let k = near(r, left).min(left);
        let k = if left > 40 && k < 8 { left.min(8 + r.below(200)) } else { k };
        s.nest(k);
        left -= k;
    }
    s.closes(1);
    s
}

/// Deterministic shapes that every run includes (index i), engineered for the real
/// boundaries: 64-bit words, L1 = 2048 bits, L2 = 65536 bits, depth > 32767.
fn fixed_shape(i: u64, r: &mut Rng, maxbits: u64) -> Option<Rl> {
    let mut s = Rl::default();
    let big = maxbits >= 3 * L2_BITS;
    match i {
        0 => {}
        1 => s.opens(1),
        2 => s.closes(1),
        3 => s.nest(1),
        4 => s.opens(if big { 2 * L2_BITS } else { 2 * L1_BITS }), // skip lands exactly at len
        5 => s.nest(if big { 40_000 } else { 1500 }),              // deep spine
        6 => s.nest(if big { 32_768 } else { 1024 }),
        7 => {
            // spine with siblings at the bottom, depth > 32767 when big
            let k = if big { 32_769 } else { 1025 };
            s.opens(k);
            s.pairs(3);
            s.nest(70);
            s.closes(k);
        }
        8 => s.closes(if big { 70_000 } else { 5000 }), // all closes
        9 => return Some(gen_wrapped_blocks(r, if big { 2 * L2_BITS } else { 2 * L1_BITS })),
        10 => return Some(gen_wrapped_blocks(r, if big { L2_BITS + 64 } else { L1_BITS + 64 })),
        11 => return Some(gen_wrapped_blocks(r, 3 * L1_BITS)),
        12 => {
            // long monotone runs, unbalanced tail
            let k = if big { L2_BITS + 1 } else { L1_BITS + 1 };
            s.opens(k);
            s.closes(k - 3);
            s.opens(64);
            s.closes(7);
        }
        13 => {
            // closes first (negative excess), then a balanced part
            s.closes(65);
            s.nest(if big { 33_000 } else { 700 });
            s.closes(2);
        }
        14 => {
            // flat pairs wrapped (many runs, short)
            s.opens(1);
            s.pairs(if big { 1100 } else { 200 });
            s.closes(1);
        }
        15 => {
            // match lands on the last bit of an L1 block / first of the next
            s.opens(63);
            s.nest(992);
            s.closes(63);
            s.nest(1);
        }
        _ => return None,
    }
    Some(s)
}

struct Case {
    words: Vec<u64>,
    len: usize,
    sw: usize,
    sw1: usize,
}

/// Choose the logical length and the storage (stray bits, surplus whole words).
fn make_case(r: &mut Rng, s: &Rl, allow_surplus: bool) -> Case {
    let mut words = s.words();
    let total = s.total as usize;
    let mut len = total;
    let surplus = allow_surplus && r.chance(1, 6);
    if total > 0 {
        match r.below(10) {
            0 | 1 => {
                // cut inside the last word: the structure continues past len (natural strays)
                let lo = (words.len() - 1) * 64;
                len = lo + r.below((total - lo) as u64 + 1) as usize;
            }
            2 if surplus => {
                // cut far back, to a boundary or anywhere
                len = match r.below(4) {
                    0 => (total / 64) * 64,
                    1 => (total / L1_BITS as usize) * L1_BITS as usize,
                    2 => (total / L2_BITS as usize) * L2_BITS as usize,
                    _ => r.below(total as u64 + 1) as usize,
                };
            }
            _ => {}
        }
    }
    // stray bits in the word that holds bit len-1 / len
    if len % 64 != 0 && r.coin() {
        let w = len / 64;
        let hi = !((1u64 << (len % 64)) - 1);
        match r.below(3) {
            0 => words[w] |= hi,
            1 => words[w] |= hi & r.next_u64(),
            _ => words[w] |= 1u64 << 63,
        }
    }
    if surplus {
        let extra = *r.pick(&[1usize, 1, 2, 3, 8, 9, 33]);
        for _ in 0..extra {
            words.push(match r.below(4) {
                0 => 0,
                1 => u64::MAX,
                2 => r.next_u64(),
                _ => 1u64 << r.below(64),
            });
        }
    }
    let need = len.div_ceil(64);
    if !surplus && words.len() > need {
        words.truncate(need);
    }
    let sw = words.len() - need;
    // 1-bits past len in a storage that has surplus whole words (stray bits of the word holding
    // len included: with surplus words that word is not the last one, so nothing masks it)
    let mut sw1: usize = words[need..].iter().map(|w| w.count_ones() as usize).sum();
    if sw > 0 && len % 64 != 0 {
        sw1 += (words[need - 1] >> (len % 64)).count_ones() as usize;
    }
    Case { words, len, sw, sw1 }
}

fn oi(x: Option<usize>) -> i64 {
    match x {
        None => -1,
        Some(v) => clamp_i(v as u64),
    }
}

fn g_opt(f: impl FnOnce() -> Option<usize>) -> i64 {
    guarded(f).map(oi).unwrap_or(-2)
}

fn g_num(f: impl FnOnce() -> usize) -> i64 {
    guarded(f).map(|v| clamp_i(v as u64)).unwrap_or(-2)
}

fn q(tr: &mut Trace, op: &str, a: i64, r: i64) {
    tr.emit(json!({"e":"q","op":op,"a":a,"r":r}));
}

/// All navigation / rank queries at position p.
fn nav_at<W: AsRef<[u64]>, S: SelectSupport>(tr: &mut Trace, bp: &BalancedParens<W, S>, p: u64, len: usize) {
    let pu = p as usize;
    let a = clamp_i(p);
    q(tr, "find_close", a, g_opt(|| bp.find_close(pu)));
    q(tr, "find_open", a, g_opt(|| bp.find_open(pu)));
    q(tr, "enclose", a, g_opt(|| bp.enclose(pu)));
    q(tr, "first_child", a, g_opt(|| bp.first_child(pu)));
    q(tr, "next_sibling", a, g_opt(|| bp.next_sibling(pu)));
    q(tr, "subtree_size", a, g_opt(|| bp.subtree_size(pu)));
    q(tr, "rank1", a, g_num(|| bp.rank1(pu)));
    q(tr, "rank0", a, g_num(|| bp.rank0(pu)));
    q(tr, "is_open", a, guarded(|| i64::from(bp.is_open(pu))).unwrap_or(-2));
    q(tr, "is_close", a, guarded(|| i64::from(bp.is_close(pu))).unwrap_or(-2));
    if p % 7 == 0 {
        q(tr, "parent", a, g_opt(|| bp.parent(pu)));
    }
    if pu < len {
        match guarded(|| bp.excess(pu)) {
            Ok(x) => {
                q(tr, "excess", a, x as i64);
                if x >= 0 {
                    q(tr, "depth", a, g_opt(|| bp.depth(pu)));
                }
            }
            // -2 is a legitimate excess: a panic of excess() is logged as 2^30-1 (never an excess)
            Err(_) => q(tr, "excess", a, (1 << 30) - 1),
        }
    } else {
        q(tr, "depth", a, g_opt(|| bp.depth(pu)));
    }
}

fn sel_queries<W: AsRef<[u64]>, S: SelectSupport>(
    tr: &mut Trace,
    bp: &BalancedParens<W, S>,
    has_select: bool,
    ks1: &[u64],
    ks0: &[u64],
) {
    q(tr, "total_ones", 0, g_num(|| bp.total_ones()));
    q(tr, "total_zeros", 0, g_num(|| bp.total_zeros()));
    if has_select {
        for &k in ks1 {
            q(tr, "select1", clamp_i(k), g_opt(|| bp.select1(k as usize)));
        }
    }
    for &k in ks0 {
        q(tr, "select0", clamp_i(k), g_opt(|| bp.select0(k as usize)));
    }
}

fn exercise<W: AsRef<[u64]>, S: SelectSupport>(
    tr: &mut Trace,
    bp: &BalancedParens<W, S>,
    has_select: bool,
    len: usize,
    pos: &[u64],
    ks1: &[u64],
    ks0: &[u64],
) {
    sel_queries(tr, bp, has_select, ks1, ks0);
    for &p in pos {
        nav_at(tr, bp, p, len);
    }
}

fn positions(r: &mut Rng, rl: &[[u64; 2]], len: usize, nbits: usize, npos: usize) -> Vec<u64> {
    let l = len as u64;
    let mut must: Vec<u64> = vec![0, 1, l, l + 1, l + 63, l + 64, u64::MAX, 1 << 31, nbits as u64];
    if len > 0 {
        must.push(l - 1);
    }
    if len > 1 {
        must.push(l - 2);
    }
    let mut pos: Vec<u64> = vec![];
    let add3 = |pos: &mut Vec<u64>, c: u64| {
        for d in [-1i64, 0, 1] {
            let p = c as i64 + d;
            if p >= 0 {
                pos.push(p as u64);
            }
        }
    };
    // run boundaries: the first 24, the last 8, and a random sample
    let mut starts: Vec<u64> = Vec::with_capacity(rl.len());
    let mut acc = 0u64;
    for run in rl {
        starts.push(acc);
        acc += run[1];
    }
    let n = starts.len();
    for (i, &s) in starts.iter().enumerate() {
        if i < 24 || i + 8 >= n {
            add3(&mut pos, s);
        }
    }
    for _ in 0..16.min(n) {
        let s = *r.pick(&starts);
        add3(&mut pos, s);
    }
    // every L2 boundary, sampled L1 and word boundaries
    let mut b = L2_BITS;
    while b <= l + L2_BITS && b < (1 << 24) {
        add3(&mut pos, b);
        b += L2_BITS;
    }
    for _ in 0..8 {
        add3(&mut pos, r.below(l / L1_BITS + 2) * L1_BITS);
        add3(&mut pos, r.below(l / 64 + 2) * 64);
        add3(&mut pos, r.below(l / 512 + 2) * 512);
        pos.push(r.below(l + 1));
        pos.push(r.below(l + 1));
    }
    r.shuffle(&mut pos);
    pos.truncate(npos.saturating_sub(must.len()));
    pos.extend(must);
    pos.sort_unstable();
    pos.dedup();
    r.shuffle(&mut pos);
    pos
}

fn select_args(r: &mut Rng, count: usize, rate: u32) -> Vec<u64> {
    let c = count as u64;
    let er = rate.max(1) as u64;
    let mut ks: Vec<u64> = vec![0, 1, c, c + 1, u64::MAX, 1 << 31];
    if c > 0 {
        ks.push(c - 1);
    }
    for _ in 0..5 {
        let j = r.below(c / er + 2);
        for d in [-1i64, 0, 1] {
            let k = (j * er) as i64 + d;
            if k >= 0 {
                ks.push(k as u64);
            }
        }
        let j = r.below(c / 256 + 2);
        ks.push(j * 256);
        ks.push(r.below(c + 1));
        ks.push(r.below(c + 1));
    }
    ks.sort_unstable();
    ks.dedup();
    r.shuffle(&mut ks);
    ks.truncate(28);
    ks
}

const RATES: [u32; 9] = [0, 1, 2, 3, 255, 256, 257, 4096, 64];

fn main() {
    let args = Args::parse();
    if args.pos.first().map(|s| s.as_str()) == Some("probe") {
        // the literal failing inputs quoted in known_findings.d/C04.json
        silence_panics();
        let a = BalancedParens::new(vec![0b01, u64::MAX], 2);
        println!("new([0b01,MAX],2).total_ones() = {} (definition 1)", a.total_ones());
        println!("new([0b01,MAX],2).total_zeros() = {:?} (definition 1)", guarded(|| a.total_zeros()));
        let w = [0b01u64, u64::MAX];
        let b = BalancedParens::<&[u64], NoSelect>::from_words(&w[..], 2);
        println!("from_words([0b01,MAX],2).total_ones() = {} (definition 1)", b.total_ones());
        println!("from_words([0b01,MAX],2).select0(0) = {:?} (definition Some(1))", guarded(|| b.select0(0)));
        let w2 = [0b01u64, 0b1];
        let c = BalancedParens::<&[u64], NoSelect>::from_words(&w2[..], 2);
        println!("from_words([0b01,0b1],2).select0(0) = {:?} (definition Some(1))", guarded(|| c.select0(0)));
        let w3 = [0b101u64, 0];
        let d = BalancedParens::<&[u64], NoSelect>::from_words(&w3[..], 2);
        println!("from_words([0b101,0],2).total_ones() = {} (definition 1)", d.total_ones());
        println!("find_close(&[1,0],1,0) = {:?} (definition None)", guarded(|| find_close(&[1, 0], 1, 0)));
        return;
    }
    if args.pos.len() < 2 || args.pos[0] != "record" {
        die("usage: c04 record <out> seed=N vectors=N cfg=name [maxbits=N] [npos=N] [kwords=N]");
    }
    silence_panics();
    let mut r = Rng::new(args.seed());
    let vectors = args.u64("vectors", 60);
    let cfg = args.str("cfg", "default");
    let maxbits = args.u64("maxbits", 200_000);
    let npos = args.u64("npos", 60) as usize;
    let kwords = args.u64("kwords", 200);
    let mut tr = Trace::create(&args.pos[1]);

    let mut i = 0u64;
    let mut made = 0u64;
    while made < vectors {
        let s = match fixed_shape(i, &mut r, maxbits) {
            Some(s) => s,
            None => {
                if r.chance(1, 10) {
                    let t = *r.pick(&[64u64, 128, 2 * L1_BITS, L1_BITS + 64, L2_BITS, 2 * L2_BITS, L2_BITS + L1_BITS]);
                    gen_wrapped_blocks(&mut r, t.min(maxbits & !1).max(2))
                } else {
                    let cap = *r.pick(&[300u64, 3000, 20_000, maxbits, maxbits]);
                    gen_compose(&mut r, cap.min(maxbits))
                }
            }
        };
        i += 1;
        made += 1;
        // fixed shapes are used exactly first, then (sometimes) again with strays/surplus
        let case = if i <= 16 && r.coin() {
            let words = s.words();
            Case { len: s.total as usize, words, sw: 0, sw1: 0 }
        } else {
            make_case(&mut r, &s, true)
        };
        let Case { words, len, sw, sw1 } = case;
        let rl = rle_of_words(&words);
        let rlj = rle_json(&rl);
        let nbits = words.len() * 64;

        // true counts over the first len bits (harness-side, only to choose arguments)
        let mut ones = 0usize;
        for (wi, w) in words.iter().enumerate() {
            if (wi + 1) * 64 <= len {
                ones += w.count_ones() as usize;
            } else if wi * 64 < len {
                ones += (w & ((1u64 << (len - wi * 64)) - 1)).count_ones() as usize;
            }
        }
        let zeros = len - ones;
        let pos = positions(&mut r, &rl, len, nbits, npos);
        let light: Vec<u64> = pos.iter().copied().take(npos / 4 + 6).collect();
        let full_owned = r.below(3);
        let full_borrowed = r.below(3);

        for variant in 0..6u64 {
            let owned = variant < 3;
            let selk = variant % 3; // 0 none, 1 WithSelect, 2 WithCsPoppy
            let rate: u32 = if selk == 2 { *r.pick(&RATES) } else { 256 };
            let use_default_ctor = selk == 2 && rate == 256 && r.coin();
            let full = if owned { selk == full_owned } else { selk == full_borrowed };
            let p: &[u64] = if full { &pos } else { &light };
            let ks1 = select_args(&mut r, ones, rate);
            let ks0 = select_args(&mut r, zeros, 256);
            let selname = ["n", "s", "c"][selk as usize];
            let head = |rlen: i64| {
                json!({"e":"build","cfg":cfg,"st": if owned {"o"} else {"b"},
                       "sel": selname,"rate":rate,"rl":rlj.clone(),"len":len,
                       "nw":words.len(),"sw":sw,"sw1":sw1,"rlen":rlen})
            };
            macro_rules! run {
                ($ctor:expr, $has:expr) => {{
                    match guarded(|| $ctor) {
                        Ok(bp) => {
                            tr.emit(head(clamp_i(bp.len() as u64)));
                            exercise(&mut tr, &bp, $has, len, p, &ks1, &ks0);
                        }
                        Err(_) => tr.emit(head(-2)),
                    }
                }};
            }
            let c = Config { select_sample_rate: rate };
            match (owned, selk) {
                (true, 0) => run!(BalancedParens::<Vec<u64>, NoSelect>::new(words.clone(), len), false),
                (true, 1) => run!(BalancedParens::<Vec<u64>, WithSelect>::new_with_select(words.clone(), len), true),
                (true, _) => {
                    if use_default_ctor {
                        run!(BalancedParens::<Vec<u64>, WithCsPoppy>::new_with_cspoppy(words.clone(), len), true)
                    } else {
                        run!(BalancedParens::<Vec<u64>, WithCsPoppy>::new_with_cspoppy_config(words.clone(), len, c), true)
                    }
                }
                (false, 0) => run!(BalancedParens::<&[u64], NoSelect>::from_words(&words[..], len), false),
                (false, 1) => run!(BalancedParens::<&[u64], WithSelect>::from_words_with_select(&words[..], len), true),
                (false, _) => {
                    if use_default_ctor {
                        run!(BalancedParens::<&[u64], WithCsPoppy>::from_words_with_cspoppy(&words[..], len), true)
                    } else {
                        run!(BalancedParens::<&[u64], WithCsPoppy>::from_words_with_cspoppy_config(&words[..], len, c), true)
                    }
                }
            }
            // free functions on the caller's storage (stray bits untouched): after the first
            // borrowed variant, so they are validated against the same build event
            if variant == 3 {
                for &pp in p.iter().take(npos / 2 + 8) {
                    let pu = pp as usize;
                    let a = clamp_i(pp);
                    q(&mut tr, "f_find_close", a, g_opt(|| find_close(&words, len, pu)));
                    q(&mut tr, "f_find_open", a, g_opt(|| find_open(&words, len, pu)));
                    q(&mut tr, "f_enclose", a, g_opt(|| enclose(&words, len, pu)));
                }
            }
        }
    }

    // in-word kernels
    for _ in 0..kwords {
        let w = match r.below(8) {
            0 => r.next_u64(),
            1 => r.next_u64() | r.next_u64(),
            2 => r.next_u64() & r.next_u64(),
            3 => {
                let k = r.below(33);
                if k == 0 { 0 } else { (1u64 << k) - 1 } // k opens then closes
            }
            4 => u64::MAX << r.below(64),
            5 => 0x5555_5555_5555_5555u64.rotate_left(r.below(2) as u32),
            6 => {
                let mut s = Rl::default();
                while s.total < 64 {
                    let n = r.range(1, 12).min(64 - s.total);
                    let b = r.below(2);
                    s.push(b, n);
                }
                s.words()[0]
            }
            _ => *r.pick(&[0u64, u64::MAX, 1, 1 << 63, !1, !(1 << 63)]),
        };
        let rl = rle_json(&rle_of_words(&[w]));
        let fu = guarded(|| find_unmatched_close_in_word(w) as i64).unwrap_or(-2);
        tr.emit(json!({"e":"w","op":"fuc","rl":rl.clone(),"a":0,"r":fu}));
        let mut ps: Vec<u32> = vec![0, 1, 62, 63, 64, 65, r.below(64) as u32, r.below(64) as u32, r.below(64) as u32];
        if r.chance(1, 8) {
            ps.push(u32::MAX);
        }
        for p in ps {
            let rr = guarded(|| find_close_in_word(w, p).map(|x| x as i64).unwrap_or(-1)).unwrap_or(-2);
            tr.emit(json!({"e":"w","op":"fciw","rl":rl.clone(),"a":clamp_i(p as u64),"r":rr}));
        }
    }
    let n = tr.finish();
    println!("{{\"events\":{n},\"vectors\":{made}}}");
}
