//! C24 — jq mode matches jq 1.7.1 outside documented divergences.
//!
//! usage: c24 calibrate <repo>/tests/data <out.ndjson>
//!            every golden case / error probe whose filter converts to the JqCore AST becomes an event
//!            carrying the RECORDED jq-1.7.1 observation (the oracle is calibrated on these)
//!        c24 record <out.ndjson> cli=<succinctly> seed=N progs=N inputs=K depth=D
//!            generated core-fragment programs x inputs through the CLI (`succinctly jq -c`)
//!
//! Events (validated by spec/Trace_JqCli.tla):
//!   {"e":"cal","id":..,"prog":..,"ast":..,"in":value,"oe":obs,"full":1|0,"r":n}   full=0: only the message is recorded
//!   {"e":"cli","prog":..,"ast":..,"in":value,"oe":obs,"r":n}
//!   obs = {"out":[value..],"end":{"k":"ok"|"err","v":message string value,"l":"","c":1 if "(not a string)"}}
#[path = "jq_common/mod.rs"]
mod common;
use common::*;
use verif_harness::*;

fn obs_end_err(msg: &str, nas: i64) -> Value {
    json!({"k":"err","v":{"t":"str","cp":cps(msg)},"l":"","c":nas})
}

/// "jq: error (at <stdin>:1): msg" -> (msg, not_a_string)
fn parse_jq_err(line: &str) -> Option<(String, i64)> {
    let rest = line.strip_prefix("jq: error")?.trim_start();
    let rest = if rest.starts_with("(at ") { rest.split_once(')')?.1 } else { rest };
    if let Some(t) = rest.strip_prefix(" (not a string): ") {
        Some((t.to_string(), 1))
    } else {
        Some((rest.strip_prefix(": ")?.to_string(), 0))
    }
}

fn main() {
    let a = Args::parse();
    silence_panics();
    match a.pos.first().map(|s| s.as_str()) {
        Some("calibrate") => {
            let data = a.pos.get(1).cloned().unwrap_or_else(|| die("missing data dir"));
            let out = a.pos.get(2).cloned().unwrap_or_else(|| die("missing out"));
            let mut t = Trace::create(&out);
            let (mut total, mut conv, mut skipped_args, mut skipped_parse, mut skipped_frag, mut skipped_io) = (0, 0, 0, 0, 0, 0);
            let mut names: Vec<_> = std::fs::read_dir(format!("{data}/jq-golden/cases")).unwrap_or_else(|e| die(&format!("{e}"))).map(|d| d.unwrap().path()).collect();
            names.sort();
            for dir in names {
                total += 1;
                let rd = |f: &str| std::fs::read_to_string(dir.join(f)).ok();
                let args = rd("args").unwrap_or_default();
                let toks: Vec<&str> = args.split_whitespace().collect();
                if !toks.iter().all(|x| *x == "-c" || *x == "-n") || !toks.contains(&"-c") {
                    skipped_args += 1;
                    continue;
                }
                let filter = rd("filter").unwrap_or_default();
                let input = if toks.contains(&"-n") { "null".to_string() } else { rd("input.json").unwrap_or_else(|| "null".into()) };
                let Some(inv) = parse_v(input.trim()) else {
                    skipped_io += 1;
                    continue;
                };
                let Ok(expr) = parse_prog(filter.trim()) else {
                    skipped_parse += 1;
                    continue;
                };
                let Some(ast) = expr_to_ast(&expr) else {
                    skipped_frag += 1;
                    continue;
                };
                if !all_nums_canonical(&inv) {
                    skipped_frag += 1;
                    continue;
                }
                let mut outs = vec![];
                let mut bad = false;
                for ln in rd("expected.out").unwrap_or_default().lines() {
                    match parse_v(ln) {
                        Some(v) if all_nums_canonical(&v) => outs.push(v.enc()),
                        _ => bad = true,
                    }
                }
                if bad {
                    skipped_io += 1;
                    continue;
                }
                let end = match rd("expected.err") {
                    Some(e) if !e.trim().is_empty() => match e.lines().next().and_then(parse_jq_err) {
                        Some((m, nas)) => obs_end_err(&m, nas),
                        None => {
                            skipped_io += 1;
                            continue;
                        }
                    },
                    _ => ok_end(),
                };
                conv += 1;
                let r = outs.len();
                t.emit(json!({"e":"cal","id":dir.file_name().unwrap().to_string_lossy(),"prog":filter.trim(),"ast":ast.enc().unwrap(),
                              "in":inv.enc(),"oe":{"out":outs,"end":end},"full":1,"r":r}));
            }
            // error probes: id \t filter \t input \t message
            let (mut ptotal, mut pconv) = (0, 0);
            let tsv = std::fs::read_to_string(format!("{data}/jq-error-messages.tsv")).unwrap_or_else(|e| die(&format!("{e}")));
            for ln in tsv.lines() {
                if ln.starts_with('#') || ln.trim().is_empty() {
                    continue;
                }
                let f: Vec<&str> = ln.split('\t').collect();
                if f.len() < 4 {
                    continue;
                }
                ptotal += 1;
                let (Some(inv), Ok(expr)) = (parse_v(f[2]), parse_prog(f[1])) else { continue };
                let Some(ast) = expr_to_ast(&expr) else { continue };
                if !all_nums_canonical(&inv) {
                    continue;
                }
                pconv += 1;
                t.emit(json!({"e":"cal","id":f[0],"prog":f[1],"ast":ast.enc().unwrap(),"in":inv.enc(),
                              "oe":{"out":[],"end":obs_end_err(f[3], 0)},"full":0,"r":0}));
            }
            let n = t.finish();
            println!(
                "\nSUMMARY {}",
                json!({"events": n, "golden_total": total, "golden_converted": conv, "golden_skipped_args": skipped_args,
                       "golden_skipped_parse": skipped_parse, "golden_skipped_fragment": skipped_frag, "golden_skipped_io": skipped_io,
                       "probes_total": ptotal, "probes_converted": pconv})
            );
        }
        Some("record") => {
            let out = a.pos.get(1).cloned().unwrap_or_else(|| die("missing output path"));
            let cli = a.str("cli", "");
            if cli.is_empty() {
                die("cli=<path> required");
            }
            let progs = a.u64("progs", 150);
            let inputs = a.u64("inputs", 3);
            let depth = a.u64("depth", 4) as u32;
            let mut g = Gen::new(a.seed() ^ 0x24);
            let mut t = Trace::create(&out);
            let mut ops = std::collections::BTreeSet::new();
            let (mut nprog, mut failed) = (0, 0);
            for _ in 0..progs {
                let (ast, sh) = g.core_program(depth);
                if ast.size() > 40 {
                    continue;
                }
                let Some(av) = ast.enc() else { continue };
                let text = ast.render();
                nprog += 1;
                ast.ops(&mut ops);
                let mut mo = std::collections::BTreeSet::new();
                multi_arg_causes(&ast, &mut mo);
                let mo: Vec<String> = mo.into_iter().collect();
                for j in 0..inputs {
                    let v = g.input_for(sh, j == 2);
                    if !all_nums_canonical(&v) || atom_collision(&[&v.enc(), &av]) {
                        continue;
                    }
                    let o = run_cli(&cli, &text, &v.text());
                    if o["end"]["k"] != "ok" {
                        failed += 1;
                    }
                    let r = o["out"].as_array().unwrap().len();
                    t.emit(json!({"e":"cli","prog":text,"mo":mo,"ast":av,"in":v.enc(),"oe":{"out":o["out"],"end":o["end"]},"stderr":o["stderr"],"full":1,"r":r,
                                  "dup": if v.has_dup_keys() {1} else {0}}));
                }
            }
            let n = t.finish();
            println!("\nSUMMARY {}", json!({"events": n, "programs": nprog, "failed_runs": failed, "ops": ops.len(), "ops_list": ops.into_iter().collect::<Vec<_>>()}));
        }
        _ => die("usage: c24 calibrate <data> <out> | record <out> cli=.."),
    }
}
