//! C16 — YAML index does not depend on the SIMD dispatch level.
//!
//! usage: c16 record <behaviours.ndjson> <trace.ndjson> <dumps.ndjson> cfg=<name> seed=N ndocs=N nsoup=N
//!
//! Run once per configuration (default build = AVX2 dispatch; the same binary under
//! SUCCINCTLY_SIMD=sse2 in a separate process; the `scalar-yaml` feature build).  Events
//! (validated by spec/Trace_YamlKernels.tla; `cfg` is logged but never consulted):
//!   {"e":"k","cfg":..,"k":kernel,"n":len,"fill":byte,"marks":[[pos,byte]..],"s":start,"x":end|min_indent|0,"r":result}
//!   {"e":"c","cfg":..,"n","fill","marks","s":offset,"hascr":0|1,"w":width,"nl":[..],"cr":[..],...}   (x86 only)
//!   {"e":"idx","cfg":..,"doc":id,"h":[h3,h2,h1,h0]}   hash of the canonical dump of every public
//!        table of the loaded index + JSON + YAML output (the dumps themselves go to <dumps>)
#[path = "yaml_common/mod.rs"]
mod common;
use common::*;
use std::io::BufRead;
use succinctly::jq::document::IndentSpec;
use succinctly::yaml::simd;
use succinctly::yaml::YamlIndex;
use verif_harness::*;

fn buf_of(n: usize, fill: u8, marks: &[(usize, u8)]) -> Vec<u8> {
    let mut b = vec![fill; n];
    for &(p, c) in marks {
        if p < n {
            b[p] = c;
        }
    }
    b
}

/// marked positions, one entry per position (the last mark of a position wins, as in buf_of)
fn marks_json(marks: &[(usize, u8)], n: usize) -> Value {
    let mut m: std::collections::BTreeMap<usize, u8> = std::collections::BTreeMap::new();
    for &(p, c) in marks {
        if p < n {
            m.insert(p, c);
        }
    }
    Value::Array(m.into_iter().map(|(p, c)| json!([p, c])).collect())
}

fn oi(x: Option<usize>) -> i64 {
    match x {
        None => -1,
        Some(v) => v as i64,
    }
}

/// hit offsets relative to the start: every position relative to 16- and 32-byte chunks
const DELTAS: [usize; 19] = [0, 1, 2, 7, 14, 15, 16, 17, 30, 31, 32, 33, 47, 48, 49, 63, 64, 65, 1000];

fn kernels(tr: &mut Trace, cfg: &str, r: &mut Rng, step: usize, phase: usize) {
    // (kernel, fill byte, hit bytes)
    let specs: &[(&str, u8, &[u8])] = &[
        ("fqe", b'a', &[b'"', b'\\']),
        ("fsq", b'a', &[b'\'']),
        ("cls", b' ', &[b'a', b'\n', b'\t']),
        ("fnl", b'a', &[b'\n']),
        ("pan", b'a', &[b' ', b'\t', b'\n', b'\r', b'[', b']', b'{', b'}', b',']),
        ("fje", b'a', &[b'"', b'\\', 0, 0x1f, b'\n']),
    ];
    for &(k, fill, hits) in specs {
        for s in (0..=70usize).filter(|s| s % step == phase % step) {
            for (di, &d) in DELTAS.iter().enumerate() {
                let n = s + 72 + (di % 3);
                let hit = hits[(s + di) % hits.len()];
                let mut marks: Vec<(usize, u8)> = vec![];
                if s > 0 {
                    marks.push((s - 1, hit)); // a hit before the start must be ignored
                }
                if d < 1000 {
                    marks.push((s + d, hit));
                    if r.coin() {
                        marks.push((s + d + 1 + r.below(5) as usize, hits[0])); // a later hit must not win
                    }
                }
                let b = buf_of(n, fill, &marks);
                let (x, res): (usize, Result<i64, String>) = match k {
                    "fqe" => {
                        let e = if di % 4 == 3 { s + d.min(70) } else { n + (di % 2) };
                        (e, guarded(|| oi(simd::find_quote_or_escape(&b, s, e))))
                    }
                    "fsq" => {
                        let e = if di % 4 == 3 { s + d.min(70) } else { n + (di % 2) };
                        (e, guarded(|| oi(simd::find_single_quote(&b, s, e))))
                    }
                    "cls" => (0, guarded(|| simd::count_leading_spaces(&b, s) as i64)),
                    "fnl" => (0, guarded(|| oi(simd::find_newline(&b, s)))),
                    "pan" => (0, guarded(|| simd::parse_anchor_name(&b, s) as i64)),
                    _ => (0, guarded(|| simd::find_json_escape(&b, s) as i64)),
                };
                tr.emit(json!({"e": "k", "cfg": cfg, "k": k, "n": n, "fill": fill, "marks": marks_json(&marks, n),
                               "s": s, "x": x, "r": res.unwrap_or(-2)}));
            }
        }
    }
    // parse_anchor_name: the colon rule (`:` terminates only before whitespace), at every chunk position
    for s in (0..=70usize).step_by(3 * step) {
        for &d in &[0usize, 1, 14, 15, 16, 17, 31, 32, 33, 48] {
            for (vi, after) in [b'a', b' ', b'\t', b'\n', b'\r', b':'].iter().enumerate() {
                let n = if vi == 5 { s + d + 1 } else { s + d + 40 }; // vi == 5: colon is the last byte
                let marks = vec![(s + d, b':'), (s + d + 1, *after), (s + d + 20, b' ')];
                let b = buf_of(n, b'a', &marks);
                let res = guarded(|| simd::parse_anchor_name(&b, s) as i64);
                tr.emit(json!({"e": "k", "cfg": cfg, "k": "pan", "n": n, "fill": b'a', "marks": marks_json(&marks, n),
                               "s": s, "x": 0, "r": res.unwrap_or(-2)}));
            }
        }
    }
    // find_block_scalar_end: lines of varying indentation, LF / CR / CRLF, blank lines, dedent at every position
    for s in (0..=70usize).step_by(2 * step) {
        for &d in &[1usize, 2, 13, 14, 15, 16, 17, 18, 29, 30, 31, 32, 33, 34, 47, 48, 64, 1000] {
            for v in 0..4usize {
                let min_indent = 1 + (s + v) % 4;
                let n = s + 80;
                let brk = [b'\n', b'\r', b'\n', b'\r'][v];
                let mut marks: Vec<(usize, u8)> = vec![];
                // content lines before the dedent: break + min_indent spaces + text
                let mut p = s + 3;
                while d < 1000 && p + min_indent + 2 < s + d {
                    marks.push((p, brk));
                    for i in 0..min_indent {
                        marks.push((p + 1 + i, b' '));
                    }
                    p += min_indent + 4 + (v % 2);
                    if v == 3 && p < s + d {
                        marks.push((p, b'\n')); // a blank line (CR LF pair or double break)
                        p += 1;
                    }
                }
                if d < 1000 {
                    // the dedented line: break at s+d, then (min_indent - 1) spaces, then content
                    marks.push((s + d, brk));
                    for i in 0..(min_indent - 1) {
                        marks.push((s + d + 1 + i, b' '));
                    }
                }
                let b = buf_of(n, b'x', &marks);
                let res = guarded(|| oi(simd::find_block_scalar_end(&b, s, min_indent)));
                tr.emit(json!({"e": "k", "cfg": cfg, "k": "fbe", "n": n, "fill": b'x', "marks": marks_json(&marks, n),
                               "s": s, "x": min_indent, "r": res.unwrap_or(-2)}));
            }
        }
    }
    #[cfg(not(feature = "scalar-yaml"))]
    {
        const CH: [u8; 10] = [b'\n', b'\r', b':', b'-', b' ', b'"', b'\'', b'\\', b'#', b'a'];
        for off in (0..=40usize).step_by(step) {
            for rep in 0..3 {
                let n = off + [16usize, 31, 32, 33, 48][(off + rep) % 5];
                let mut marks: Vec<(usize, u8)> = vec![];
                for p in 0..n {
                    if r.below(3) == 0 {
                        marks.push((p, *r.pick(&CH)));
                    }
                }
                let b = buf_of(n, b'b', &marks);
                let hascr = rep % 2 == 0;
                let c = if hascr { simd::classify_yaml_chars::<true>(&b, off) } else { simd::classify_yaml_chars::<false>(&b, off) };
                if let Some(c) = c {
                    let bits = |m: u32| -> Vec<u32> { (0..c.width as u32).filter(|i| (m >> i) & 1 == 1).collect() };
                    let extra = |m: u32| -> u64 { if c.width >= 32 { 0 } else { (m >> c.width) as u64 } };
                    tr.emit(json!({"e": "c", "cfg": cfg, "n": n, "fill": b'b', "marks": marks_json(&marks, n), "s": off,
                        "hascr": hascr as u8, "w": c.width, "nl": bits(c.newlines), "cr": bits(c.carriage_returns),
                        "co": bits(c.colons), "hy": bits(c.hyphens), "sp": bits(c.spaces), "dq": bits(c.quotes_double),
                        "sq": bits(c.quotes_single), "bs": bits(c.backslashes), "ha": bits(c.hash),
                        "junk": extra(c.newlines | c.carriage_returns | c.colons | c.hyphens | c.spaces | c.quotes_double
                                      | c.quotes_single | c.backslashes | c.hash)}));
                } else {
                    tr.emit(json!({"e": "c", "cfg": cfg, "n": n, "fill": b'b', "marks": marks_json(&marks, n), "s": off,
                        "hascr": hascr as u8, "w": 0, "nl": [], "cr": [], "co": [], "hy": [], "sp": [], "dq": [], "sq": [],
                        "bs": [], "ha": [], "junk": 0}));
                }
            }
        }
    }
}

/// Canonical dump of every public table of the loaded index + JSON and YAML output.
fn dump(text: &[u8]) -> String {
    let r = guarded(|| -> String {
        let idx = match YamlIndex::build(text) {
            Err(e) => return format!("ERR {e}"),
            Ok(i) => i,
        };
        let mut s = String::new();
        s += &format!("ib {} {:x?}\n", idx.ib_len(), idx.ib());
        s += &format!("bp {} {:x?}\n", idx.bp().len(), idx.bp().words());
        s += &format!("ty {} {:x?}\n", idx.ty_len(), idx.ty());
        for p in 0..idx.bp().len() {
            if idx.bp().is_open(p) {
                s += &format!(
                    "{p}: start {:?} end {:?} cont {} seq {} anchor {:?} alias {} {:?} {:?} tag {:?} comment {:?} before {}\n",
                    idx.bp_to_text_pos(p), idx.bp_to_text_end_pos(p), idx.is_container(p),
                    idx.is_container(p) && idx.is_sequence_at_bp(p), idx.get_anchor_name(p), idx.is_alias(p),
                    idx.get_alias_target(p), idx.get_alias_anchor_name(p), idx.get_tag(p), idx.get_line_comment(p),
                    idx.count_containers_before(p)
                );
            }
        }
        let root = idx.root(text);
        s += &format!("json {}\n", root.to_json());
        let mut y = String::new();
        let ok = root.stream_yaml(&mut y, IndentSpec { width: 2, unit: ' ' }, false).is_ok();
        s += &format!("yaml {ok} {y}\n");
        s
    });
    match r {
        Ok(s) => s,
        Err(p) => format!("PANIC {p}"),
    }
}

fn fnv(s: &str) -> [u64; 4] {
    let mut h: u64 = 0xcbf29ce484222325;
    for b in s.bytes() {
        h ^= b as u64;
        h = h.wrapping_mul(0x100000001b3);
    }
    [(h >> 48) & 0xffff, (h >> 32) & 0xffff, (h >> 16) & 0xffff, h & 0xffff]
}

const SOUP: &[&[u8]] = &[
    b"-", b":", b"?", b"[", b"]", b"{", b"}", b",", b"&a", b"*a", b"!", b"|", b">", b"'", b"\"", b"%", b"#", b"\n", b"\r",
    b"\r\n", b" ", b"\t", b"a", b"- ", b": ", b"---", b"...", b"\\", b"  ", b"\xc3\xa9", b"\xff", b"k: v", b"\"x\"",
    b"aaaaaaaaaaaaaaaaaaaaaaaaaaaaaaaaaaa", b"                  ", b"&anchoranchoranchoranchoranchor:x ", b"'yyyyyyyyyyyyyyyyyyyyyyyyyyyyyyyy'",
];

fn main() {
    let args = Args::parse();
    if args.pos.len() < 4 || args.pos[0] != "record" {
        die("usage: c16 record <behaviours> <trace> <dumps> cfg=name seed=N ndocs=N nsoup=N");
    }
    silence_panics();
    let cfg = args.str("cfg", "default");
    let mut r = Rng::new(args.seed());
    let mut tr = Trace::create(&args.pos[2]);
    let mut dumps = Trace::create(&args.pos[3]);
    // step=1: every start offset 0..70 (thorough); step=k: starts congruent to seed mod k (quick)
    let step = args.u64("step", 1) as usize;
    kernels(&mut tr, &cfg, &mut r, step, args.seed() as usize);
    let nk = tr.n;
    // whole-index agreement: generated documents stretched across chunk boundaries
    let ndocs = args.u64("ndocs", 300) as usize;
    let f = std::fs::File::open(&args.pos[1]).unwrap_or_else(|e| die(&format!("open: {e}")));
    let mut id = 0u64;
    let mut r2 = Rng::new(args.seed() ^ 0x5eed);
    let mut built = 0u64;
    for (li, line) in std::io::BufReader::new(f).lines().enumerate() {
        if id as usize >= ndocs {
            break;
        }
        let line = line.unwrap();
        if line.trim().is_empty() || (li % 5 != 0 && li > 200) {
            continue;
        }
        let rec: Value = serde_json::from_str(&line).unwrap();
        let mut s = stream_of(&rec);
        // stretch: every scalar "a" becomes a run of 1..70 a's; a leading comment line shifts the alignment
        for d in s.docs.iter_mut() {
            for n in d.nodes.iter_mut() {
                if n.s == "a" {
                    n.s = "a".repeat(1 + r2.below(70) as usize);
                }
            }
        }
        let mut text = vec![];
        let shift = r2.below(34) as usize;
        if shift > 0 {
            text.push(b'#');
            text.extend(std::iter::repeat(b'x').take(shift - 1));
            text.extend_from_slice(match s.br.as_str() {
                "LF" => b"\n",
                "CR" => b"\r",
                _ => b"\r\n",
            });
        }
        text.extend(render(&s));
        let d = dump(&text);
        if !d.starts_with("ERR") && !d.starts_with("PANIC") {
            built += 1;
        }
        tr.emit(json!({"e": "idx", "cfg": cfg, "doc": id, "h": fnv(&d)}));
        dumps.emit(json!({"doc": id, "text": String::from_utf8_lossy(&text), "dump": d}));
        id += 1;
    }
    // directed: plain keys (and plain values) of every length 1..=100, so that the `:` / the end of
    // the scalar falls in every lane of a 16/32-byte classification chunk started at the scalar,
    // with more than a chunk of input after it; top-level, nested and sequence-entry shapes
    for klen in 1..=100usize {
        let key = "k".repeat(klen);
        let tail = "zz: 123456789012345678901234567890123456789\n";
        for shape in 0..3 {
            let text = match shape {
                0 => format!("{key}: v\n{tail}"),
                1 => format!("p:\n  {key}: v\n  {tail}"),
                _ => format!("- {key}: v\n  {tail}- {key}\n"),
            };
            let d = dump(text.as_bytes());
            if !d.starts_with("ERR") && !d.starts_with("PANIC") {
                built += 1;
            }
            tr.emit(json!({"e": "idx", "cfg": cfg, "doc": id, "h": fnv(&d)}));
            dumps.emit(json!({"doc": id, "text": text, "dump": d}));
            id += 1;
        }
    }
    // arbitrary bytes
    let nsoup = args.u64("nsoup", 300);
    for _ in 0..nsoup {
        let mut v: Vec<u8> = vec![];
        if r2.below(5) == 0 {
            for _ in 0..r2.below(60) {
                v.push(r2.below(256) as u8);
            }
        } else {
            for _ in 0..r2.range(1, 16) {
                let t: &[u8] = *r2.pick(SOUP);
                v.extend_from_slice(t);
            }
        }
        let d = dump(&v);
        if !d.starts_with("ERR") && !d.starts_with("PANIC") {
            built += 1;
        }
        tr.emit(json!({"e": "idx", "cfg": cfg, "doc": id, "h": fnv(&d)}));
        dumps.emit(json!({"doc": id, "text": String::from_utf8_lossy(&v), "bytes": v, "dump": d}));
        id += 1;
    }
    let n = tr.finish();
    dumps.finish();
    println!("{}", json!({"cfg": cfg, "events": n, "kernel_events": nk, "index_events": id, "indexes_built": built,
                          "simd_env": std::env::var("SUCCINCTLY_SIMD").unwrap_or_default()}));
}
