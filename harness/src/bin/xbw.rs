//! BitWriter (beyond the listed properties; underlies C05/C20 builders): record traces of the
//! real `json::BitWriter`.  usage: xbw record <out.ndjson> seed=N writers=N ops=N
use succinctly::json::BitWriter;
use verif_harness::*;

fn main() {
    let args = Args::parse();
    if args.pos.len() < 2 || args.pos[0] != "record" {
        die("usage: xbw record <out> seed=N writers=N ops=N");
    }
    silence_panics();
    let mut r = Rng::new(args.seed());
    let writers = args.u64("writers", 100);
    let nops = args.u64("ops", 60);
    let mut tr = Trace::create(&args.pos[1]);
    for _ in 0..writers {
        let mut w = if r.coin() { BitWriter::new() } else { BitWriter::with_capacity(r.below(4) as usize) };
        tr.emit(json!({"e":"new"}));
        let n = r.range(0, nops);
        for _ in 0..n {
            match r.below(8) {
                0 | 1 => {
                    let b = r.coin();
                    w.write_bit(b);
                    tr.emit(json!({"e":"op","op":"bit","v":i32::from(b),"len":w.len(),"empty":i32::from(w.is_empty())}));
                }
                2..=4 => {
                    let v = match r.below(4) {
                        0 => u64::MAX,
                        1 => r.next_u64(),
                        2 => r.next_u64() & r.next_u64(),
                        _ => 1u64 << r.below(64),
                    };
                    // counts chosen to hit: fits exactly, spans two words, 0, 64
                    let pos = w.len() % 64;
                    let c = match r.below(7) {
                        0 => 0,
                        1 => 64,
                        2 => 64 - pos,
                        3 => (64 - pos + 1).min(64),
                        4 => (64 - pos).saturating_sub(1),
                        _ => r.below(65) as usize,
                    };
                    w.write_bits(v, c);
                    tr.emit(json!({"e":"op","op":"bits","ones":word_bits(v),"c":c,"len":w.len(),"empty":i32::from(w.is_empty())}));
                }
                _ => {
                    let pos = w.len() % 64;
                    let c = match r.below(8) {
                        0 => 0,
                        1 => 64 - pos,
                        2 => (64 - pos).saturating_sub(1),
                        3 => 64 - pos + 1,
                        4 => 64 - pos + 64,
                        5 => 128 + r.below(3) as usize,
                        6 => r.below(1000) as usize,
                        _ => r.below(70) as usize,
                    };
                    w.write_zeros(c);
                    tr.emit(json!({"e":"op","op":"zeros","c":c,"len":w.len(),"empty":i32::from(w.is_empty())}));
                }
            }
        }
        let words = w.finish();
        tr.emit(json!({"e":"finish","nwords":words.len(),"rl":rle_json(&rle_of_words(&words))}));
    }
    let n = tr.finish();
    println!("{{\"events\":{n}}}");
}
