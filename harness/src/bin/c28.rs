//! C28 — jq-locate expressions evaluate to the located JSON node.
//!
//! usage: c28 record <out.ndjson> seed=N docs=N [maxnodes=N] [sample=<dir> nsample=N]
//!
//! Events (validated by spec/Trace_Locate.tla):
//!   {"e":"build","fmt":"json","doc":text,"len":N,"cls":[0|1|2 per byte],"tree":<tree with spans>}
//!   {"e":"loc","off":o,"ln":l,"col":c,"expr":text,"found":1|0|-2,"rs":start,"re":end,
//!    "val":<expr by jq::eval>,"val2":<expr by the generic evaluator>,"ao":<at_offset(o)>,"ap":<at_position(l;c)>}
//!        -- one per QUALIFYING offset (inside a scalar or key token, on a container's opening bracket)
//!   {"e":"end","n":<number of loc events>,"all":1}
//! Non-qualifying offsets are not asserted on; their locate outcome is only counted (stdout).
//!
//! With sample=<dir>: writes <dir>/doc-<i>.json and <dir>/samples.ndjson (build event + a few
//! qualifying offsets with line/column) for the CLI stage of checks/c28.py.
#[path = "locate_common/mod.rs"]
mod common;
use common::*;
use succinctly::json::locate::locate_offset_detailed;
use succinctly::json::JsonIndex;
use verif_harness::*;

fn gen_doc(r: &mut Rng, i: u64, maxnodes: usize) -> (Vec<u8>, T) {
    // a few fixed shapes first, then random ones
    let v = match i {
        0 => V::Obj(vec![("name".into(), V::Str("Alice".into())), ("age".into(), V::Num(30))]),
        1 => V::Arr(vec![V::Num(1), V::Arr(vec![V::Num(2), V::Arr(vec![]), V::Obj(vec![])]), V::Str("x".into())]),
        2 => V::Num(42),
        3 => V::Str("top".into()),
        4 => V::Arr((0..70).map(V::Num).collect()), // BP / IB words are crossed
        5 => V::Obj(JSON_KEYS.iter().map(|k| (k.to_string(), V::Num(1))).collect()),
        6 => V::Obj(JSON_KEYS.iter().rev().map(|k| (k.to_string(), V::Arr(vec![V::Str(k.to_string())]))).collect()),
        _ => {
            let budget = match r.below(6) {
                0 => r.range(1, 4),
                1..=3 => r.range(4, 14),
                _ => r.range(10, maxnodes as u64),
            } as usize;
            let mut g = Gen { r, budget };
            let depth = g.r.range(1, 5) as usize;
            g.value(depth, JSON_KEYS, JSON_STRS)
        }
    };
    let dense = r.chance(1, 4);
    render_json(r, &v, dense)
}

fn main() {
    let args = Args::parse();
    if args.pos.len() == 3 && args.pos[0] == "expr" {
        // development / replay aid: c28 expr '<jq expression>' '<json text>'
        silence_panics();
        let t = args.pos[2].as_bytes();
        println!("jq::eval      : {}", eval_full_json(&args.pos[1], t));
        println!("eval_generic  : {}", eval_generic_json(&args.pos[1], t));
        return;
    }
    if args.pos.len() == 3 && args.pos[0] == "probe" {
        // development / replay aid: c28 probe <file> <offset>
        silence_panics();
        let text = std::fs::read(&args.pos[1]).unwrap_or_else(|e| die(&format!("read: {e}")));
        let off: usize = args.pos[2].parse().unwrap_or_else(|_| die("offset"));
        let index = JsonIndex::build(&text);
        let l = guarded(|| locate_offset_detailed(&index, &text, off));
        println!("locate_offset_detailed: {:?}", l.as_ref().map(|o| o.as_ref().map(|l| (l.expression.clone(), l.byte_range, l.value_type))));
        if let Ok(Some(l)) = l {
            println!("jq::eval      : {}", eval_full_json(&l.expression, &text));
            println!("eval_generic  : {}", eval_generic_json(&l.expression, &text));
        }
        println!("at_offset     : {}", eval_generic_json(&format!("at_offset({off})"), &text));
        return;
    }
    if args.pos.len() < 2 || args.pos[0] != "record" {
        die("usage: c28 record <out> seed=N docs=N [maxnodes=N] [sample=dir nsample=N]");
    }
    silence_panics();
    let mut r = Rng::new(args.seed());
    let ndocs = args.u64("docs", 100);
    let maxnodes = args.u64("maxnodes", 40) as usize;
    let sample_dir = args.str("sample", "");
    let nsample = args.u64("nsample", 12);
    let mut tr = Trace::create(&args.pos[1]);
    let mut samples: Vec<Value> = vec![];
    let (mut dropped, mut nloc, mut nother, mut other_none) = (0u64, 0u64, 0u64, 0u64);
    let mut exprs = std::collections::BTreeSet::new();
    let mut bracket_exprs = 0u64;

    for i in 0..ndocs {
        let (text, tree) = gen_doc(&mut r, i, maxnodes);
        if let Err(e) = self_check_json(&text, &tree) {
            eprintln!("self-check dropped a case: {e}: {:?}", String::from_utf8_lossy(&text));
            dropped += 1;
            continue;
        }
        let doc = String::from_utf8(text.clone()).expect("generated JSON is UTF-8");
        let build = json!({"e":"build","fmt":"json","doc":doc,"len":text.len(),"cls":byte_classes(&text),"tree":tree.enc()});
        tr.emit(build.clone());
        let mut toks = vec![];
        tokens(&tree, &mut toks);
        let q = qualifying(&toks, true);
        let starts = line_starts(&text);
        let index = guarded(|| JsonIndex::build(&text));
        let mut n = 0u64;
        let mut sample_offs: Vec<Value> = vec![];
        let mut qi = 0usize;
        for off in 0..text.len() {
            let is_q = qi < q.len() && q[qi].0 == off;
            let located = match &index {
                Ok(ix) => guarded(|| locate_offset_detailed(ix, &text, off)),
                Err(e) => Err(e.clone()),
            };
            if !is_q {
                // unconstrained position (whitespace, `,` `:` closing bracket): information only
                nother += 1;
                if !matches!(located, Ok(Some(_))) {
                    other_none += 1;
                }
                continue;
            }
            let tok = &toks[q[qi].1];
            qi += 1;
            let (ln, col) = line_col(&starts, off);
            let (found, rs, re, expr) = match &located {
                Ok(Some(l)) => (1, l.byte_range.0 as i64, l.byte_range.1 as i64, l.expression.clone()),
                Ok(None) => (0, -1, -1, String::new()),
                Err(_) => (-2, -1, -1, String::new()),
            };
            let (val, val2) = if found == 1 {
                (eval_full_json(&expr, &text), eval_generic_json(&expr, &text))
            } else {
                (err_val("not located"), err_val("not located"))
            };
            let ao = eval_generic_json(&format!("at_offset({off})"), &text);
            let ap = eval_generic_json(&format!("at_position({ln}; {col})"), &text);
            if expr.contains("[\"") {
                bracket_exprs += 1;
            }
            if exprs.len() < 100000 {
                exprs.insert(expr.clone());
            }
            tr.emit(json!({"e":"loc","off":off,"ln":ln,"col":col,"expr":expr,"found":found,"rs":rs,"re":re,
                           "val":val,"val2":val2,"ao":ao,"ap":ap}));
            n += 1;
            // CLI sample: first / last byte of a few tokens
            if (off as i64 == tok.s || off as i64 == tok.e - 1) && r.chance(1, 3) && sample_offs.len() < 6 {
                sample_offs.push(json!({"off":off,"ln":ln,"col":col}));
            }
        }
        nloc += n;
        tr.emit(json!({"e":"end","n":n,"all":1}));
        if !sample_dir.is_empty() && (samples.len() as u64) < nsample && !sample_offs.is_empty() && (i < 7 || r.chance(1, 3)) {
            let path = format!("{sample_dir}/doc-{i}.json");
            std::fs::write(&path, &text).unwrap_or_else(|e| die(&format!("write {path}: {e}")));
            samples.push(json!({"file":path,"build":build,"offs":sample_offs}));
        }
    }
    if !sample_dir.is_empty() {
        let mut st = Trace::create(&format!("{sample_dir}/samples.ndjson"));
        for s in samples {
            st.emit(s);
        }
        st.finish();
    }
    let n = tr.finish();
    println!(
        "{}",
        json!({"events":n,"loc":nloc,"dropped":dropped,"other_offsets":nother,"other_not_located":other_none,
               "distinct_exprs":exprs.len(),"bracket_exprs":bracket_exprs})
    );
}
