//! Shared helpers for the JSON scanning checks (C05, C32): bit-vector <-> position lists and
//! a generator of valid JSON documents that records the byte span of every value.
#![allow(dead_code)]
use verif_harness::*;

/// Ascending positions of the one-bits of a word vector.
pub fn ones_of_words(words: &[u64]) -> Vec<u64> {
    let mut out = vec![];
    for (i, &w) in words.iter().enumerate() {
        let mut x = w;
        while x != 0 {
            let b = x.trailing_zeros() as u64;
            out.push(i as u64 * 64 + b);
            x &= x - 1;
        }
    }
    out
}

/// The word vector a `BitWriter` returns for `nbits` bits with ones at `ones`.
pub fn words_of_ones(ones: &[u64], nbits: u64) -> Vec<u64> {
    let mut w = vec![0u64; (nbits as usize).div_ceil(64)];
    for &p in ones {
        let i = (p / 64) as usize;
        if i >= w.len() {
            w.resize(i + 1, 0);
        }
        w[i] |= 1u64 << (p % 64);
    }
    w
}

/// Each 64-bit word as four 16-bit integers, low quarter first (TLC integers are 32-bit).
pub fn quarters_json(words: &[u64]) -> Value {
    let mut out = Vec::with_capacity(words.len() * 4);
    for &w in words {
        for q in 0..4 {
            out.push(json!((w >> (16 * q)) & 0xFFFF));
        }
    }
    Value::Array(out)
}

pub fn bytes_json(b: &[u8]) -> Value {
    Value::Array(b.iter().map(|&x| json!(x)).collect())
}

pub fn u64s_json(b: &[u64]) -> Value {
    Value::Array(b.iter().map(|&x| json!(x)).collect())
}

pub fn bytes_of_json(v: &Value) -> Vec<u8> {
    v.as_array().map(|a| a.iter().map(|x| x.as_u64().unwrap() as u8).collect()).unwrap_or_default()
}

pub fn u64s_of_json(v: &Value) -> Vec<u64> {
    v.as_array().map(|a| a.iter().map(|x| x.as_u64().unwrap()).collect()).unwrap_or_default()
}

// ---------------------------------------------------------------------------------------
// valid JSON document generator
// ---------------------------------------------------------------------------------------

/// kind of a recorded span
pub const K_CONTAINER: u8 = 0;
pub const K_STRING: u8 = 1;
pub const K_NUMBER: u8 = 2;
pub const K_LITERAL: u8 = 3;
pub const K_KEY: u8 = 4;

pub struct Doc {
    pub bytes: Vec<u8>,
    /// (start, end_exclusive, kind) of every value and key, in document order of their start
    pub spans: Vec<(usize, usize, u8)>,
    pub family: &'static str,
    /// nesting depth of the "deep" family's bracket chain (0 for the other families)
    pub chain: usize,
}

#[derive(Clone, Copy)]
pub struct Style {
    /// whitespace probability numerator (out of 8) between tokens
    pub ws: u64,
    pub max_children: u64,
    pub max_str: u64,
    /// probability (out of 8) that a string draws from the "nasty" alphabet
    pub nasty: u64,
}

struct Gen<'a> {
    r: &'a mut Rng,
    out: Vec<u8>,
    spans: Vec<(usize, usize, u8)>,
    st: Style,
    budget: i64,
}

const WS: [u8; 4] = [b' ', b'\t', b'\n', b'\r'];

impl Gen<'_> {
    fn ws(&mut self) {
        if self.r.below(8) < self.st.ws {
            let n = self.r.range(1, 3);
            for _ in 0..n {
                let c = *self.r.pick(&WS);
                self.out.push(c);
            }
        }
    }

    fn string(&mut self, kind: u8) {
        let start = self.out.len();
        self.out.push(b'"');
        let n = match self.r.below(6) {
            0 => 0,
            1 => self.r.range(1, 3),
            5 => self.r.range(1, self.st.max_str.max(1)),
            _ => self.r.range(1, 8.min(self.st.max_str.max(1))),
        };
        let nasty = self.r.below(8) < self.st.nasty;
        for _ in 0..n {
            let pick = if nasty { self.r.below(14) } else { self.r.below(40) };
            match pick {
                0 => self.out.extend_from_slice(b"\\\""),
                1 => self.out.extend_from_slice(b"\\\\"),
                2 => self.out.extend_from_slice(b"\\/"),
                3 => {
                    let e = *self.r.pick(&[b'b', b'f', b'n', b'r', b't']);
                    self.out.push(b'\\');
                    self.out.push(e);
                }
                4 => {
                    let cp: u32 = *self.r.pick(&[0x0000u32, 0x0022, 0x005C, 0x00e9, 0x7b, 0x5d, 0xD83D, 0xFFFF, 0x002c]);
                    let hex = if self.r.coin() { format!("\\u{cp:04x}") } else { format!("\\u{cp:04X}") };
                    self.out.extend_from_slice(hex.as_bytes());
                    if cp == 0xD83D {
                        self.out.extend_from_slice(b"\\uDE00");
                    }
                }
                5 => {
                    let c = *self.r.pick(&[b'{', b'}', b'[', b']', b',', b':']);
                    self.out.push(c);
                }
                6 => {
                    let s: &[u8] = *self.r.pick(&["é".as_bytes(), "漢".as_bytes(), "😀".as_bytes(), "\u{7f}".as_bytes()]);
                    self.out.extend_from_slice(s);
                }
                7 => self.out.push(b' '),
                8 => {
                    // run of escaped backslashes, possibly followed by an escaped quote
                    let k = self.r.range(1, 4);
                    for _ in 0..k {
                        self.out.extend_from_slice(b"\\\\");
                    }
                    if self.r.coin() {
                        self.out.extend_from_slice(b"\\\"");
                    }
                }
                9 => {
                    let c = *self.r.pick(&[b't', b'f', b'n', b'-', b'0', b'9', b'e', b'E', b'+', b'.']);
                    self.out.push(c);
                }
                _ => {
                    let c = self.r.range(b'a' as u64, b'z' as u64) as u8;
                    self.out.push(c);
                }
            }
        }
        self.out.push(b'"');
        self.spans.push((start, self.out.len(), kind));
        self.budget -= (self.out.len() - start) as i64;
    }

    fn number(&mut self) {
        let start = self.out.len();
        let r = &mut *self.r;
        let mut s = String::new();
        if r.below(3) == 0 {
            s.push('-');
        }
        if r.below(4) == 0 {
            s.push('0');
        } else {
            s.push((b'1' + r.below(9) as u8) as char);
            let n = *r.pick(&[0u64, 0, 1, 2, 5, 17]);
            for _ in 0..n {
                s.push((b'0' + r.below(10) as u8) as char);
            }
        }
        if r.below(3) == 0 {
            s.push('.');
            for _ in 0..r.range(1, 4) {
                s.push((b'0' + r.below(10) as u8) as char);
            }
        }
        if r.below(3) == 0 {
            s.push(if r.coin() { 'e' } else { 'E' });
            match r.below(3) {
                0 => s.push('+'),
                1 => s.push('-'),
                _ => {}
            }
            for _ in 0..r.range(1, 2) {
                s.push((b'0' + r.below(10) as u8) as char);
            }
        }
        self.out.extend_from_slice(s.as_bytes());
        self.spans.push((start, self.out.len(), K_NUMBER));
        self.budget -= s.len() as i64;
    }

    fn literal(&mut self) {
        let start = self.out.len();
        let l: &[u8] = *self.r.pick(&[&b"true"[..], &b"false"[..], &b"null"[..]]);
        self.out.extend_from_slice(l);
        self.spans.push((start, self.out.len(), K_LITERAL));
        self.budget -= l.len() as i64;
    }

    fn scalar(&mut self) {
        match self.r.below(3) {
            0 => self.string(K_STRING),
            1 => self.number(),
            _ => self.literal(),
        }
    }

    fn value(&mut self, depth: u64) {
        if self.budget <= 0 || depth == 0 || self.r.below(5) < 2 {
            self.scalar();
            return;
        }
        let start = self.out.len();
        let idx = self.spans.len();
        self.spans.push((start, 0, K_CONTAINER));
        let obj = self.r.coin();
        self.out.push(if obj { b'{' } else { b'[' });
        self.budget -= 2;
        let n = if self.r.below(5) == 0 { 0 } else { self.r.range(1, self.st.max_children.max(1)) };
        self.ws();
        for i in 0..n {
            if i > 0 {
                self.out.push(b',');
                self.ws();
            }
            if obj {
                self.string(K_KEY);
                self.ws();
                self.out.push(b':');
                self.ws();
            }
            self.value(depth - 1);
            self.ws();
            if self.budget <= 0 && i + 1 < n {
                break;
            }
        }
        self.out.push(if obj { b'}' } else { b']' });
        self.spans[idx].1 = self.out.len();
    }
}

fn finish(g: Gen<'_>, family: &'static str, chain: usize) -> Doc {
    let mut spans = g.spans;
    spans.sort();
    Doc { bytes: g.out, spans, family, chain }
}

/// One valid JSON document from one of several families (sizes chosen to cross the 16/32/64
/// byte SIMD chunks, the 64-bit IB/BP words and the 512-bit BP blocks).
pub fn gen_doc(r: &mut Rng, max_bytes: usize) -> Doc {
    let fam = r.below(10);
    let (family, st, budget, depth): (&'static str, Style, i64, u64) = match fam {
        0 | 1 => ("small", Style { ws: r.below(5), max_children: 4, max_str: 10, nasty: 3 }, 40, 4),
        2 | 3 => ("medium", Style { ws: r.below(6), max_children: 6, max_str: 24, nasty: 3 }, 300, 6),
        4 => ("large", Style { ws: r.below(4), max_children: 9, max_str: 40, nasty: 2 }, (max_bytes as i64 * 3 / 4).max(300), 9),
        5 => ("scalar", Style { ws: 4, max_children: 1, max_str: 70, nasty: 4 }, 10, 0),
        6 => ("strings", Style { ws: 2, max_children: 5, max_str: 70, nasty: 8 }, 250, 3),
        7 => ("wide", Style { ws: r.below(3), max_children: 3, max_str: 4, nasty: 1 }, 0, 0),
        8 => ("deep", Style { ws: r.below(3), max_children: 2, max_str: 4, nasty: 1 }, 0, 0),
        _ => ("pretty", Style { ws: 8, max_children: 5, max_str: 12, nasty: 2 }, 200, 5),
    };
    let mut g = Gen { r, out: vec![], spans: vec![], st, budget };
    let mut chain = 0usize;
    g.ws();
    match family {
        "wide" => {
            // one array (or object) with many small members: long BP, far find_close
            let n = *g.r.pick(&[10u64, 31, 32, 33, 64, 100, 257, 600]);
            let n = n.min((max_bytes / 6) as u64).max(1);
            let obj = g.r.coin();
            let start = g.out.len();
            let idx = g.spans.len();
            g.spans.push((start, 0, K_CONTAINER));
            g.out.push(if obj { b'{' } else { b'[' });
            for i in 0..n {
                if i > 0 {
                    g.out.push(b',');
                    g.ws();
                }
                if obj {
                    g.string(K_KEY);
                    g.out.push(b':');
                }
                g.budget = if g.r.below(6) == 0 { 12 } else { 0 };
                g.value(2);
            }
            g.out.push(if obj { b'}' } else { b']' });
            g.spans[idx].1 = g.out.len();
        }
        "deep" => {
            let d = *g.r.pick(&[1u64, 2, 15, 16, 17, 31, 32, 33, 64, 65, 130, 300]);
            let d = d.min((max_bytes / 8) as u64).max(1);
            chain = d as usize;
            let mut closers: Vec<(usize, u8)> = vec![];
            for _ in 0..d {
                let idx = g.spans.len();
                g.spans.push((g.out.len(), 0, K_CONTAINER));
                match g.r.below(3) {
                    0 => {
                        g.out.push(b'{');
                        g.string(K_KEY);
                        g.out.push(b':');
                        closers.push((idx, b'}'));
                    }
                    1 => {
                        g.out.push(b'[');
                        g.scalar();
                        g.out.push(b',');
                        closers.push((idx, b']'));
                    }
                    _ => {
                        g.out.push(b'[');
                        closers.push((idx, b']'));
                    }
                }
                g.ws();
            }
            g.budget = 10;
            g.value(1);
            while let Some((idx, c)) = closers.pop() {
                g.ws();
                if c == b']' && g.r.below(4) == 0 {
                    g.out.push(b',');
                    g.scalar();
                }
                g.out.push(c);
                g.spans[idx].1 = g.out.len();
            }
        }
        _ => g.value(depth),
    }
    g.ws();
    finish(g, family, chain)
}
