//! C17 — YAML position tables (OpenPositions / EndPositions behind `YamlIndex`): record
//! traces of the real accessors under arbitrary lookup orders.
//!
//! usage: c17 record <out.ndjson> seed=N tables=N [queries=N] [big=N] [bigq=N] [yaml=N] [mode=main|f3]
//!   mode=main  all families, but no table of the F3 class (monotone starts containing
//!              text_len with text_len % 64 == 0: text_len is bumped by one) -- so the main
//!              trace validates in one pass while F3 is a known finding;
//!   mode=f3    only the families aimed at positions equal to text_len (incl. the F3 class)
//!        c17 probe                      (prints whether the H4 hook is compiled in)
//!
//! Tables are handed to the real code through the public `YamlIndex::from_parts`
//! (raw `bp_to_text` / `bp_to_text_end` vectors; BP = all opens, so open_idx = bp_pos), and,
//! for the `yaml` family, produced by the real parser (`YamlIndex::build`).
//!
//! Events (validated by spec/Trace_PositionTables.tla):
//!   {"e":"build","g":G,"fam":"..","src":"parts|yaml","tl":L,"n":N,"s":[..],"en":[..],"hook":0|1}
//!   {"e":"q","g":G,"op":"ts|te|bs|be","a":arg (-1 = huge),"r":result (-1 None, -2 panic)
//!        [,"co":[noi,adv,wi,ob,la,lr] | [] (dense), "ce":[..] | []]}      (hook H4 only)
//! ops: ts = text_pos_by_open_idx, te = text_end_pos_by_open_idx,
//!      bs = bp_to_text_pos, be = bp_to_text_end_pos.
use std::collections::BTreeMap;
use succinctly::yaml::YamlIndex;
use verif_harness::*;

type Idx = YamlIndex<Vec<u64>>;

fn from_parts(starts: &[u32], ends: &[u32], text_len: usize) -> Idx {
    let n = starts.len().max(ends.len());
    // BP: n opens (all ones), so rank1(bp_pos) = bp_pos for bp_pos <= n
    let mut bp = vec![0u64; n.div_ceil(64).max(1)];
    for i in 0..n {
        bp[i / 64] |= 1u64 << (i % 64);
    }
    let ib = vec![0u64; text_len.div_ceil(64).max(1)];
    YamlIndex::from_parts(
        ib,
        text_len,
        bp,
        n,
        vec![0u64; 1],
        0,
        starts.to_vec(),
        ends.to_vec(),
        vec![0u64; n.div_ceil(64).max(1)],
        BTreeMap::new(),
        BTreeMap::new(),
        BTreeMap::new(),
    )
}

#[cfg(feature = "hooks")]
fn cursors(idx: &Idx) -> Option<(Value, Value)> {
    fn enc(c: Option<[usize; 6]>) -> Value {
        match c {
            None => json!([]),
            Some(a) => Value::Array(
                a.iter()
                    .map(|&x| if x == usize::MAX { json!(-1) } else { json!(clamp_i(x as u64)) })
                    .collect(),
            ),
        }
    }
    let (o, e) = idx.verif_position_cursors();
    Some((enc(o), enc(e)))
}

#[cfg(not(feature = "hooks"))]
fn cursors(_idx: &Idx) -> Option<(Value, Value)> {
    None
}

const HOOK: u8 = if cfg!(feature = "hooks") { 1 } else { 0 };

// ---------------------------------------------------------------------------------------
// table generators
// ---------------------------------------------------------------------------------------

struct Table {
    fam: &'static str,
    tl: usize,
    starts: Vec<u32>,
    ends: Vec<u32>,
}

const EDGE_TL: [usize; 9] = [10, 63, 64, 65, 127, 128, 129, 192, 640];

/// Monotone start sequence of `n` nodes over 0..=hi with duplicates; `uniq` distinct values
/// if possible.
fn mono_starts(r: &mut Rng, n: usize, hi: usize, dup_num: u64, dup_den: u64) -> Vec<u32> {
    let mut v = Vec::with_capacity(n);
    let mut cur = if r.coin() { 0 } else { r.below(hi as u64 + 1) as usize };
    for i in 0..n {
        if i > 0 && !r.chance(dup_num, dup_den) {
            let room = hi - cur;
            if room > 0 {
                let step = match r.below(6) {
                    0 => 1,
                    1 => 1 + r.below(3) as usize,
                    2 => 1 + r.below(70) as usize,
                    3 => 64,
                    4 => 1 + r.below(room as u64) as usize,
                    _ => 1 + r.below(9) as usize,
                };
                cur += step.min(room);
            }
        }
        v.push(cur as u32);
    }
    v
}

/// Ends in the manner of the parser: a scalar's end lies between its start and the next
/// node's start (so recorded ends are non-decreasing and every recorded end is at or before
/// every later start); containers have 0.
fn parser_like_ends(r: &mut Rng, starts: &[u32], tl: usize, scalar_num: u64) -> Vec<u32> {
    let n = starts.len();
    let mut v = vec![0u32; n];
    for i in 0..n {
        if r.chance(scalar_num, 10) {
            let lo = starts[i] as usize;
            let hi = if i + 1 < n { (starts[i + 1] as usize).max(lo) } else { tl.max(lo) };
            let e = match r.below(4) {
                0 => hi,
                1 => lo,
                _ => lo + r.below((hi - lo) as u64 + 1) as usize,
            };
            v[i] = e as u32; // may be 0 when lo = 0: then it simply is "no end"
        }
    }
    v
}

fn gen_table(r: &mut Rng, fam_idx: u64) -> Table {
    match fam_idx {
        // 0: monotone with duplicates, parser-like ends, edge text lengths
        0 => {
            let tl = *r.pick(&EDGE_TL);
            let n = r.range(1, 40) as usize;
            let starts = mono_starts(r, n, tl.saturating_sub(1), 1, 3);
            let ends = parser_like_ends(r, &starts, tl, 6);
            Table { fam: "mono-dup", tl, starts, ends }
        }
        // 1: positions equal to text_len at the tail (F3 region when tl % 64 == 0)
        1 => {
            let tl = *r.pick(&[10usize, 63, 64, 65, 128, 0, 1, 192, 256]);
            let n = r.range(1, 12) as usize;
            let mut starts = mono_starts(r, n, tl, 1, 3);
            let k = r.range(1, 3) as usize;
            for _ in 0..k {
                starts.push(tl as u32);
            }
            let mut ends = parser_like_ends(r, &starts, tl, 5);
            if r.coin() {
                let l = ends.len();
                ends[l - 1] = tl as u32;
            }
            Table { fam: "at-textlen", tl, starts, ends }
        }
        // 2: non-monotone starts (Dense), ends parser-like on the sorted starts or random
        2 => {
            let tl = *r.pick(&EDGE_TL);
            let n = r.range(2, 30) as usize;
            let mut starts = mono_starts(r, n, tl, 1, 4);
            let i = r.below(n as u64 - 1) as usize;
            let j = r.range(i as u64 + 1, n as u64 - 1) as usize;
            starts.swap(i, j);
            if r.coin() {
                r.shuffle(&mut starts);
            }
            let ends = if r.coin() {
                let m = mono_starts(r, n, tl, 1, 4);
                parser_like_ends(r, &m, tl, 6)
            } else {
                (0..n).map(|_| if r.coin() { 0 } else { r.below(tl as u64 + 1) as u32 }).collect()
            };
            Table { fam: "nonmono-starts", tl, starts, ends }
        }
        // 3: monotone starts, ends NOT parser-like: non-monotone non-zero ends (Dense ends),
        //    or monotone ends unrelated to the starts (producer invariant broken)
        3 => {
            let tl = *r.pick(&EDGE_TL);
            let n = r.range(1, 30) as usize;
            let starts = mono_starts(r, n, tl, 1, 3);
            let mut ends: Vec<u32> = if r.coin() {
                (0..n).map(|_| if r.chance(2, 5) { 0 } else { r.below(tl as u64 + 1) as u32 }).collect()
            } else {
                let m = mono_starts(r, n, tl, 1, 3);
                m.iter().map(|&e| if r.chance(2, 5) { 0 } else { e }).collect()
            };
            if r.chance(1, 4) {
                let z = r.below(n as u64 + 1) as usize;
                for e in ends.iter_mut().take(z) {
                    *e = 0; // leading containers
                }
            }
            Table { fam: "free-ends", tl, starts, ends }
        }
        // 4: sample-rate boundaries: 255/256/257 and 511..513 unique positions (+ duplicates)
        4 => {
            let uniq = *r.pick(&[255usize, 256, 257, 511, 512, 513, 768, 769]);
            let gap_mode = r.below(3);
            let mut starts: Vec<u32> = Vec::new();
            let mut pos = r.below(3) as usize;
            for u in 0..uniq {
                if u > 0 {
                    pos += match gap_mode {
                        0 => 1,
                        1 => 1 + r.below(4) as usize,
                        _ => 1 + r.below(130) as usize,
                    };
                }
                // a run of nodes sharing the distinct start number 256*s (the select-sample
                // boundary), with the NEXT distinct start opening a fresh 64-bit word: the shape
                // in which a cursor re-seeded from a select sample can overshoot
                let at_sample = u > 0 && (u % 256 == 0 || (u + 1) % 256 == 0);
                let reps = if at_sample && r.chance(2, 3) {
                    2 + r.below(3) as usize
                } else if r.chance(1, 5) {
                    1 + r.below(3) as usize
                } else {
                    1
                };
                for _ in 0..reps {
                    starts.push(pos as u32);
                }
                if at_sample && reps > 1 && r.chance(2, 3) {
                    pos = (pos / 64 + 1) * 64 - 1; // next distinct start lands on a multiple of 64
                }
            }
            let tl = pos + *r.pick(&[0usize, 1, 2, 64]);
            let sc = *r.pick(&[0u64, 3, 10]);
            let ends = parser_like_ends(r, &starts, tl, sc);
            Table { fam: "sample-boundary", tl, starts, ends }
        }
        // 5: tiny
        5 => {
            let tl = *r.pick(&[0usize, 1, 2, 63, 64, 65]);
            let n = r.below(4) as usize;
            let starts: Vec<u32> = mono_starts(r, n, tl, 1, 2);
            let ends = if r.coin() { vec![0; n] } else { parser_like_ends(r, &starts, tl, 7) };
            Table { fam: "tiny", tl, starts, ends }
        }
        // 6: sparse: few positions separated by long runs of empty IB words (block scan)
        6 => {
            let groups = r.range(2, 7) as usize;
            let mut starts: Vec<u32> = vec![];
            let mut pos = r.below(64) as usize;
            for _ in 0..groups {
                for _ in 0..r.range(1, 4) {
                    for _ in 0..r.range(1, 3) {
                        starts.push(pos as u32);
                    }
                    pos += 1 + r.below(40) as usize;
                }
                pos += 64 * *r.pick(&[1usize, 7, 8, 9, 15, 16, 17, 24, 33, 70]);
            }
            let tl = pos;
            let ends = parser_like_ends(r, &starts, tl, 5);
            Table { fam: "sparse", tl, starts, ends }
        }
        // 7: dense IB: every byte is a node start for several words; ends = start + 1
        7 => {
            let n = r.range(60, 400) as usize;
            let base = r.below(70) as usize;
            let starts: Vec<u32> = (0..n).map(|i| (base + i) as u32).collect();
            let tl = base + n;
            let ends: Vec<u32> =
                (0..n).map(|i| if r.chance(1, 6) { 0 } else { (base + i + 1) as u32 }).collect();
            Table { fam: "dense-ib", tl, starts, ends }
        }
        // 9: the Compact/Dense boundary: monotone tables with ONE small inversion
        //    (a start or a recorded end that is 1..3 below its predecessor)
        9 => {
            let tl = *r.pick(&EDGE_TL);
            let n = r.range(3, 30) as usize;
            let mut starts = mono_starts(r, n, tl.saturating_sub(1), 1, 4);
            let mut ends = parser_like_ends(r, &starts, tl, 7);
            let d = r.range(1, 3) as u32;
            if r.coin() {
                // one recorded end dips below the previous recorded end
                let nz: Vec<usize> = (0..n).filter(|&i| ends[i] > 0).collect();
                if nz.len() >= 2 {
                    let m = r.range(1, nz.len() as u64 - 1) as usize;
                    let prev = ends[nz[m - 1]];
                    if prev > d {
                        ends[nz[m]] = prev - d;
                    }
                }
            } else {
                let j = r.range(1, n as u64 - 1) as usize;
                if starts[j - 1] >= d {
                    starts[j] = starts[j - 1] - d;
                }
            }
            Table { fam: "near-mono", tl, starts, ends }
        }
        // 8: unequal vector lengths (from_parts accepts them)
        _ => {
            let tl = *r.pick(&EDGE_TL);
            let n = r.range(1, 20) as usize;
            let starts = mono_starts(r, n, tl.saturating_sub(1), 1, 3);
            let mut ends = parser_like_ends(r, &starts, tl, 6);
            let m = r.below(n as u64 + 3) as usize;
            ends.resize(m, 0);
            Table { fam: "unequal-len", tl, starts, ends }
        }
    }
}

fn big_table(r: &mut Rng, n: usize) -> Table {
    // ~n opens, density like YAML (a node every ~7 bytes), duplicates for containers
    let mut starts = Vec::with_capacity(n);
    let mut pos = 0usize;
    while starts.len() < n {
        let reps = if r.chance(1, 4) { 1 + r.below(3) as usize } else { 1 };
        for _ in 0..reps {
            starts.push(pos as u32);
        }
        pos += if r.chance(1, 200) { 64 * r.range(8, 40) as usize } else { 1 + r.below(14) as usize };
    }
    starts.truncate(n);
    let tl = *starts.last().unwrap() as usize + *r.pick(&[0usize, 1, 5]);
    let ends = parser_like_ends(r, &starts, tl, 6);
    Table { fam: "big", tl, starts, ends }
}

// ---------------------------------------------------------------------------------------
// real YAML: tables produced by the parser
// ---------------------------------------------------------------------------------------

fn gen_yaml(r: &mut Rng, depth: usize, indent: usize, out: &mut String, budget: &mut i64) {
    // writes a block node at `indent` (caller is at line start)
    let pad = " ".repeat(indent);
    *budget -= 1;
    let scalars = ["a", "42", "hello world", "\"q s\"", "'x'", "~", "true", "[1, 2]", "{k: v}", "- x", "*a1"];
    let kind = if depth == 0 || *budget <= 0 { 2 } else { r.below(3) };
    match kind {
        0 => {
            for i in 0..r.range(1, 4) {
                out.push_str(&pad);
                if r.chance(1, 12) {
                    out.push_str(&format!("? k{i}\n{pad}: v\n"));
                    continue;
                }
                out.push_str(&format!("k{i}:"));
                if r.chance(1, 3) && depth > 0 {
                    out.push('\n');
                    gen_yaml(r, depth - 1, indent + 2, out, budget);
                } else if r.chance(1, 8) {
                    out.push('\n'); // null value
                } else {
                    let s = *r.pick(&scalars[..10]);
                    out.push_str(&format!(" {s}\n"));
                }
            }
        }
        1 => {
            for _ in 0..r.range(1, 4) {
                out.push_str(&pad);
                if r.chance(1, 3) && depth > 0 {
                    out.push_str("-\n");
                    gen_yaml(r, depth - 1, indent + 2, out, budget);
                } else if r.chance(1, 8) {
                    out.push_str("-\n"); // empty item
                } else {
                    let s = *r.pick(&scalars[..10]);
                    out.push_str(&format!("- {s}\n"));
                }
            }
        }
        _ => {
            let s = *r.pick(&scalars[..9]);
            out.push_str(&format!("{pad}{s}\n"));
        }
    }
}

fn yaml_doc(r: &mut Rng, f3: bool) -> Vec<u8> {
    let mut s = String::new();
    let mut budget = r.range(3, 60) as i64;
    let depth = r.range(1, 4) as usize;
    gen_yaml(r, depth, 0, &mut s, &mut budget);
    if f3 || r.chance(1, 4) {
        s.push_str("tail:"); // null value node at end of input, no newline
    }
    if f3 || r.chance(1, 3) {
        // pad (with a comment) so that the text length lands on a multiple of 64
        let want = s.len().div_ceil(64) * 64;
        if want > s.len() + 2 {
            let fill = want - s.len() - 1;
            let line = format!("#{}\n", "c".repeat(fill - 1));
            s = format!("{line}{s}");
        }
    }
    s.into_bytes()
}

/// Extract the tables of a parser-built index with ONE strictly sequential pass over a
/// separate, fresh index (the order the streaming consumer uses).  `None` entries are
/// logged as -1 (starts) / 0 (ends).
fn extract_tables(text: &[u8]) -> Option<(Vec<i64>, Vec<u32>)> {
    let idx = YamlIndex::build(text).ok()?;
    let n = idx.bp().total_ones();
    let mut s = Vec::with_capacity(n);
    let mut e = Vec::with_capacity(n);
    for i in 0..n {
        s.push(idx.text_pos_by_open_idx(i).map(|v| v as i64).unwrap_or(-1));
        e.push(idx.text_end_pos_by_open_idx(i).unwrap_or(0) as u32);
    }
    Some((s, e))
}

// ---------------------------------------------------------------------------------------
// lookup orders
// ---------------------------------------------------------------------------------------

fn gen_indices(r: &mut Rng, n: usize, q: usize) -> Vec<u64> {
    let n64 = n as u64;
    let oor: [u64; 9] = [n64, n64 + 1, n64 + 2, n64 + 63, n64 + 64, n64 + 65, 1 << 31, 1 << 40, u64::MAX];
    let mut out: Vec<u64> = Vec::with_capacity(q);
    let mut cur: u64 = 0;
    while out.len() < q {
        let seg = r.range(1, 12) as usize;
        match r.below(9) {
            // sequential sweep from the current point
            0 | 1 => {
                for _ in 0..seg {
                    out.push(cur);
                    cur += 1;
                }
            }
            // forward with gaps
            2 => {
                for _ in 0..seg {
                    cur += r.range(2, 9);
                    out.push(cur);
                }
            }
            // backward jumps
            3 => {
                for _ in 0..seg.min(4) {
                    cur = if cur == 0 { 0 } else { r.below(cur) };
                    out.push(cur);
                }
                cur += 1;
            }
            // repeats
            4 => {
                let i = if n > 0 { r.below(n64 + 1) } else { 0 };
                for _ in 0..r.range(2, 4) {
                    out.push(i);
                }
                cur = i + 1;
            }
            // uniformly random
            5 => {
                for _ in 0..seg {
                    cur = r.below(n64 + 2);
                    out.push(cur);
                }
                cur += 1;
            }
            // out of range
            6 => {
                out.push(*r.pick(&oor));
            }
            // restart from the beginning, then one long forward skip
            7 => {
                cur = r.below(12);
                out.push(cur);
                if n > 20 {
                    cur = r.range(cur + 10, n64 + 1);
                    out.push(cur);
                    cur += 1;
                }
            }
            // around word / sample boundaries
            _ => {
                let b = *r.pick(&[64u64, 128, 256, 512, 1024]);
                let base = (r.below(n64 / b + 1)) * b;
                for d in [-1i64, 0, 1] {
                    let v = base as i64 + d;
                    if v >= 0 {
                        out.push(v as u64);
                    }
                }
                cur = base + 2;
            }
        }
        if cur > n64 + 2 && !r.chance(1, 8) {
            cur = r.below(n64 + 1);
        }
        if cur > n64 + 70 {
            cur = r.below(n64 + 1);
        }
    }
    out.truncate(q);
    out
}

fn run_queries(tr: &mut Trace, r: &mut Rng, g: usize, idx: &Idx, n: usize, q: usize, bp_of: &dyn Fn(u64) -> u64) {
    // two independent index streams (one per table) interleaved at random, so each table
    // sees its own mixture of sequential / gapped / backward / repeated accesses while the
    // other table is being used in between
    let si = gen_indices(r, n, q);
    let ei = gen_indices(r, n, q);
    let (mut a, mut b) = (0usize, 0usize);
    let mode = r.below(4);
    while a < si.len() || b < ei.len() {
        let take_start = match mode {
            0 => a <= b,                 // strict alternation start/end of the same stream position
            1 => r.coin(),               // random interleaving
            2 => a < si.len(),           // all starts, then all ends
            _ => r.chance(3, 4),
        };
        let (is_start, i) = if (take_start && a < si.len()) || b >= ei.len() {
            a += 1;
            (true, si[a - 1])
        } else {
            b += 1;
            (false, if mode == 0 { si[b - 1] } else { ei[b - 1] })
        };
        let via_bp = r.chance(1, 3);
        let iu = i as usize;
        let (op, res) = match (is_start, via_bp) {
            (true, false) => ("ts", guarded(|| idx.text_pos_by_open_idx(iu))),
            (false, false) => ("te", guarded(|| idx.text_end_pos_by_open_idx(iu))),
            (true, true) => {
                let p = bp_of(i) as usize;
                ("bs", guarded(|| idx.bp_to_text_pos(p)))
            }
            (false, true) => {
                let p = bp_of(i) as usize;
                ("be", guarded(|| idx.bp_to_text_end_pos(p)))
            }
        };
        let rv: i64 = match res {
            Ok(Some(v)) => clamp_i(v as u64),
            Ok(None) => -1,
            Err(_) => -2,
        };
        let mut ev = json!({"e":"q","g":g,"op":op,"a":clamp_i(i),"r":rv});
        if let Some((co, ce)) = cursors(idx) {
            ev["co"] = co;
            ev["ce"] = ce;
        }
        tr.emit(ev);
    }
}

fn main() {
    let args = Args::parse();
    if args.pos.first().map(|s| s.as_str()) == Some("probe") {
        println!("{{\"hook\":{HOOK}}}");
        return;
    }
    if args.pos.len() < 2 || args.pos[0] != "record" {
        die("usage: c17 record <out> seed=N tables=N [queries=N] [big=N] [yaml=N]");
    }
    silence_panics();
    let mut r = Rng::new(args.seed());
    let tables = args.u64("tables", 200) as usize;
    let q = args.u64("queries", 60) as usize;
    let nbig = args.u64("big", 1) as usize;
    let bigq = args.u64("bigq", 1500) as usize;
    let nyaml = args.u64("yaml", 40) as usize;
    let mut tr = Trace::create(&args.pos[1]);
    let mut g = 0usize;
    let mut fam_count: BTreeMap<&'static str, usize> = BTreeMap::new();

    // fixed table: the design-round observation F3, literally
    let mut fixed: Vec<Table> = vec![
        Table { fam: "fixed", tl: 64, starts: vec![0, 3, 64, 64], ends: vec![0, 5, 0, 64] },
        Table { fam: "fixed", tl: 10, starts: vec![0, 3, 10, 10], ends: vec![0, 5, 0, 10] },
        Table { fam: "fixed", tl: 10, starts: vec![0, 0, 2, 2], ends: vec![5, 0, 0, 7] },
    ];
    let f3 = args.str("mode", "main") == "f3";
    let mut list: Vec<Table> = vec![];
    if f3 {
        list.append(&mut fixed);
        for t in 0..tables {
            list.push(gen_table(&mut r, if t % 3 == 2 { 5 } else { 1 }));
        }
    } else {
        for t in 0..tables {
            list.push(gen_table(&mut r, (t % 10) as u64));
        }
        for b in 0..nbig {
            let n = if b == 0 { 20_000 } else { r.range(3_000, 30_000) as usize };
            list.push(big_table(&mut r, n));
        }
        for t in list.iter_mut() {
            let mono = t.starts.windows(2).all(|w| w[0] <= w[1]);
            if mono && t.tl % 64 == 0 && t.starts.last().map(|&v| v as usize) == Some(t.tl) {
                t.tl += 1; // keep the F3 class out of the main trace
            }
        }
    }

    for t in &list {
        g += 1;
        *fam_count.entry(t.fam).or_default() += 1;
        let n = t.starts.len().max(t.ends.len());
        let (s2, e2, tl) = (t.starts.clone(), t.ends.clone(), t.tl);
        let built = guarded(move || from_parts(&s2, &e2, tl));
        let idx = match built {
            Ok(i) => i,
            Err(_) => {
                tr.emit(json!({"e":"build","g":g,"fam":t.fam,"src":"parts","tl":t.tl,"n":-2,
                               "s":t.starts,"en":t.ends,"hook":HOOK}));
                continue;
            }
        };
        tr.emit(json!({"e":"build","g":g,"fam":t.fam,"src":"parts","tl":t.tl,"n":n,
                       "s":t.starts,"en":t.ends,"hook":HOOK}));
        let nq = if t.fam == "big" { bigq } else { q.min(20 + 4 * n) };
        run_queries(&mut tr, &mut r, g, &idx, n, nq, &|i| i);
    }

    // parser-produced tables
    let mut done = 0usize;
    let mut attempts = 0usize;
    while done < nyaml && attempts < nyaml * 20 {
        attempts += 1;
        let text = yaml_doc(&mut r, f3);
        let t2 = text.clone();
        let ext = guarded(move || extract_tables(&t2));
        let (s, e) = match ext {
            Ok(Some(x)) => x,
            _ => continue,
        };
        let idx = match YamlIndex::build(&text) {
            Ok(i) => i,
            Err(_) => continue,
        };
        if !f3 && s.iter().any(|&v| v < 0) {
            continue; // F3 through the parser: only in mode=f3
        }
        g += 1;
        done += 1;
        *fam_count.entry("yaml").or_default() += 1;
        let n = s.len();
        tr.emit(json!({"e":"build","g":g,"fam":"yaml","src":"yaml","tl":text.len(),"n":n,
                       "s":s,"en":e,"hook":HOOK,"text":String::from_utf8_lossy(&text)}));
        if s.iter().any(|&v| v < 0) {
            // a node without a start position: the build event alone is rejected by the
            // trace specification (every node has a recorded start); no lookups are logged
            continue;
        }
        // BP position of the i-th open of the REAL balanced-parentheses sequence
        let bp = idx.bp();
        let bp_len = bp.len() as u64;
        let sel = |i: u64| -> u64 {
            if (i as usize) < n {
                bp.select1(i as usize).map(|p| p as u64).unwrap_or(bp_len)
            } else {
                bp_len.saturating_add(i - n as u64)
            }
        };
        run_queries(&mut tr, &mut r, g, &idx, n, q.min(20 + 4 * n), &sel);
    }

    let n = tr.finish();
    let fams: Vec<String> = fam_count.iter().map(|(k, v)| format!("\"{k}\":{v}")).collect();
    println!("{{\"events\":{n},\"groups\":{g},\"hook\":{HOOK},\"families\":{{{}}}}}", fams.join(","));
}
