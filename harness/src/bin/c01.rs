//! C01 — BitVec rank/select/access: record traces of the real `succinctly::BitVec`.
//!
//! usage: c01 record <out.ndjson> seed=N vectors=N cfg=<name> [maxwords=N]
//!
//! Events (validated by spec/Trace_BitVec.tla):
//!   {"e":"build","cfg":..,"rl":[[bit,n]..],"len":L,"rate":R,"rlen":..,"ones":..,"zeros":..,"empty":0|1}
//!   {"e":"q","op":"rank1|rank0|select1|select0|get","a":arg,"r":result}
use succinctly::{BitVec, Config, RankSelect};
use verif_harness::*;

fn gen_words(r: &mut Rng, maxwords: usize) -> Vec<u64> {
    // zero-run lengths (in words) chosen to cross the scan prologue (8), 8-word scan blocks
    // and 512-bit rank blocks
    const GAPS: [usize; 14] = [1, 7, 8, 9, 15, 16, 17, 23, 24, 25, 63, 64, 65, 200];
    // one vector in 40 is "giant": more than 2^23 ones before the queried region, so the
    // 32-bit L1 counts of the rank directory use their high bits (needs > 1 MiB of words,
    // but is a handful of runs for TLC)
    if r.chance(1, 40) {
        let ones_words = (1usize << 17) + r.below(1 << 14) as usize; // >= 2^23 ones
        let mut ws: Vec<u64> = vec![u64::MAX; ones_words];
        for _ in 0..r.range(1, 6) {
            match r.below(3) {
                0 => ws.extend(std::iter::repeat(0u64).take(r.range(1, 20) as usize)),
                1 => ws.extend(std::iter::repeat(u64::MAX).take(r.range(1, 20) as usize)),
                _ => ws.push(r.next_u64()),
            }
        }
        return ws;
    }
    let fam = r.below(9);
    let mut ws: Vec<u64> = vec![];
    match fam {
        0 => {
            // dense random, short
            let n = r.below(12) as usize;
            for _ in 0..n {
                ws.push(r.next_u64());
            }
        }
        1 => {
            // sparse: single bits separated by long zero-word gaps
            let groups = r.range(1, 6);
            for _ in 0..groups {
                let gap = *r.pick(&GAPS);
                ws.extend(std::iter::repeat(0u64).take(gap));
                let mut w = 1u64 << r.below(64);
                if r.coin() {
                    w |= 1u64 << r.below(64);
                }
                ws.push(w);
            }
            if r.coin() {
                ws.extend(std::iter::repeat(0u64).take(*r.pick(&GAPS)));
            }
        }
        2 => {
            // all ones
            let n = r.range(1, 40) as usize;
            ws = vec![u64::MAX; n];
        }
        3 => {
            // long runs of ones and zeros with ragged edges
            let groups = r.range(1, 8);
            for _ in 0..groups {
                let n = *r.pick(&[1usize, 2, 7, 8, 9, 16, 17]);
                let v = if r.coin() { u64::MAX } else { 0 };
                ws.extend(std::iter::repeat(v).take(n));
                if r.coin() {
                    let k = r.below(64);
                    ws.push(if r.coin() { (1u64 << k) - 1 } else { !((1u64 << k) - 1) });
                }
            }
        }
        4 => {
            // mostly-zero with a dense island
            let pre = *r.pick(&GAPS);
            ws.extend(std::iter::repeat(0u64).take(pre));
            for _ in 0..r.range(1, 10) {
                ws.push(r.next_u64());
            }
            ws.extend(std::iter::repeat(0u64).take(*r.pick(&GAPS)));
            ws.push(1u64 << 63);
        }
        5 => {
            // exactly sample-rate-many ones per word patterns: words with one bit each
            let n = r.range(1, 600) as usize;
            for _ in 0..n {
                ws.push(1u64 << r.below(64));
            }
        }
        6 => {
            // empty or tiny
            let n = r.below(3) as usize;
            for _ in 0..n {
                ws.push(r.next_u64() & r.next_u64());
            }
        }
        7 => {
            // periodic byte patterns
            let b = r.below(256);
            let w = b * 0x0101_0101_0101_0101;
            let n = r.range(1, 70) as usize;
            ws = vec![w; n];
        }
        _ => {
            // long zero prefix then ones at block boundaries
            let n = r.range(8, 130) as usize;
            ws = vec![0u64; n];
            for _ in 0..r.range(1, 6) {
                let i = r.below(n as u64) as usize;
                ws[i] |= 1u64 << (if r.coin() { 0 } else { 63 });
            }
        }
    }
    if ws.len() > maxwords && maxwords > 0 {
        ws.truncate(maxwords);
    }
    ws
}

fn gen_len(r: &mut Rng, nwords: usize) -> usize {
    let cap = nwords * 64;
    if cap == 0 {
        return 0;
    }
    match r.below(8) {
        0 => cap,
        1 => cap - r.below(64.min(cap as u64)) as usize,
        2 => {
            // surplus whole words past len
            let w = r.below(nwords as u64) as usize;
            w * 64 + r.below(64) as usize
        }
        3 => (r.below(nwords as u64) as usize) * 64, // exactly on a word boundary
        4 => {
            let b = (r.below((nwords as u64).div_ceil(8)) as usize) * 512;
            b.min(cap)
        }
        5 => r.below(cap as u64 + 1) as usize,
        6 => cap.saturating_sub(1),
        _ => cap,
    }
}

fn main() {
    let args = Args::parse();
    if args.pos.len() < 2 || args.pos[0] != "record" {
        die("usage: c01 record <out> seed=N vectors=N cfg=name");
    }
    silence_panics();
    let mut r = Rng::new(args.seed());
    let vectors = args.u64("vectors", 100);
    let cfg = args.str("cfg", "default");
    let maxwords = args.u64("maxwords", 700) as usize;
    let nq = args.u64("queries", 120) as usize;
    let mut tr = Trace::create(&args.pos[1]);
    const RATES: [u32; 11] = [0, 1, 2, 3, 63, 64, 255, 256, 257, 4096, 256];

    for _ in 0..vectors {
        let mut words = gen_words(&mut r, maxwords);
        let len = gen_len(&mut r, words.len());
        // stray bits past len: sometimes force some
        if len < words.len() * 64 && r.coin() {
            let p = r.range(len as u64, words.len() as u64 * 64 - 1) as usize;
            words[p / 64] |= 1u64 << (p % 64);
            if r.coin() {
                let last = words.len() - 1;
                words[last] |= 1u64 << 63;
            }
        }
        let rate = *r.pick(&RATES);
        let rl = rle_of_words(&words);
        let w2 = words.clone();
        let built = guarded(move || {
            if rate == 256 && w2.len() % 2 == 0 {
                BitVec::from_words(w2, len)
            } else {
                BitVec::with_config(w2, len, Config { select_sample_rate: rate })
            }
        });
        let bv = match built {
            Ok(b) => b,
            Err(_) => {
                tr.emit(json!({"e":"build","cfg":cfg,"rl":rle_json(&rl),"len":len,"rate":rate,
                               "rlen":-2,"ones":-2,"zeros":-2,"empty":-2}));
                continue;
            }
        };
        let zeros = guarded(|| bv.count_zeros());
        tr.emit(json!({"e":"build","cfg":cfg,"rl":rle_json(&rl),"len":len,"rate":rate,
                       "rlen":bv.len(),"ones":bv.count_ones(),
                       "zeros": match zeros { Ok(z) => json!(z), Err(_) => json!(-2) },
                       "empty": i32::from(bv.is_empty())}));

        let ones = bv.count_ones();
        let nzeros = len - ones.min(len);
        // positions of interest
        let mut pos: Vec<u64> = vec![0, 1, len as u64, len as u64 + 1, len as u64 + 2, u64::MAX, 1 << 31, 1 << 40];
        if len > (1 << 23) {
            // block starts / first words of blocks past 2^23 bits
            for _ in 0..16 {
                let b = (1u64 << 23) / 512 + r.below(((len as u64 - (1 << 23)) / 512).max(1));
                pos.push(b * 512 + r.below(64));
                pos.push(b * 512);
            }
        }
        if len > 0 {
            pos.push(len as u64 - 1);
        }
        let mut acc = 0u64;
        for run in rl.iter().take(40) {
            for d in [0i64, -1, 1] {
                let p = acc as i64 + d;
                if p >= 0 {
                    pos.push(p as u64);
                }
            }
            acc += run[1];
        }
        for _ in 0..12 {
            let w = r.below(words.len() as u64 + 1);
            for d in [0i64, -1, 1] {
                let p = (w * 64) as i64 + d;
                if p >= 0 {
                    pos.push(p as u64);
                }
            }
            let b = r.below((words.len() as u64) / 8 + 1);
            for d in [0i64, -1, 1] {
                let p = (b * 512) as i64 + d;
                if p >= 0 {
                    pos.push(p as u64);
                }
            }
            pos.push(r.below(len as u64 + 1));
        }
        r.shuffle(&mut pos);
        pos.truncate(nq);
        let er = rate.max(1) as u64;
        let mut ks: Vec<u64> = vec![0, 1, ones as u64, ones as u64 + 1, u64::MAX, 1 << 31,
                                    nzeros as u64, nzeros as u64 + 1];
        if ones > 0 {
            ks.push(ones as u64 - 1);
        }
        if nzeros > 0 {
            ks.push(nzeros as u64 - 1);
        }
        for _ in 0..10 {
            let j = r.below(ones as u64 / er + 2);
            for d in [0i64, -1, 1] {
                let k = (j * er) as i64 + d;
                if k >= 0 {
                    ks.push(k as u64);
                }
            }
            ks.push(r.below(ones as u64 + 1));
            ks.push(r.below(nzeros as u64 + 1));
        }
        r.shuffle(&mut ks);
        ks.truncate(nq / 2);

        for &p in &pos {
            let pu = p as usize;
            let a = clamp_i(p);
            let r1 = guarded(|| RankSelect::rank1(&bv, pu));
            tr.emit(json!({"e":"q","op":"rank1","a":a,"r": r1.map(|v| v as i64).unwrap_or(-2)}));
            let r0 = guarded(|| RankSelect::rank0(&bv, pu));
            tr.emit(json!({"e":"q","op":"rank0","a":a,"r": r0.map(|v| v as i64).unwrap_or(-2)}));
            let g = guarded(|| bv.get(pu));
            tr.emit(json!({"e":"q","op":"get","a":a,"r": g.map(i64::from).unwrap_or(-2)}));
        }
        for &k in &ks {
            let ku = k as usize;
            let a = clamp_i(k);
            let s1 = guarded(|| RankSelect::select1(&bv, ku));
            tr.emit(json!({"e":"q","op":"select1","a":a,
                           "r": s1.map(|v| v.map(|x| x as i64).unwrap_or(-1)).unwrap_or(-2)}));
            let s0 = guarded(|| bv.select0(ku));
            tr.emit(json!({"e":"q","op":"select0","a":a,
                           "r": s0.map(|v| v.map(|x| x as i64).unwrap_or(-1)).unwrap_or(-2)}));
        }
    }
    let n = tr.finish();
    println!("{{\"events\":{n}}}");
}
